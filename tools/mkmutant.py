#!/venv/bin/python
"""Create a mutant patch: tools/mkmutant.py NAME PROP [--also C10] FILE <<< python-dict-of-replacements
Reads from stdin a Python literal: list of (old, new) string pairs applied to FILE in a scratch worktree."""
import ast, os, subprocess, sys, tempfile, shutil
name, prop = sys.argv[1], sys.argv[2]
also = ""
args = sys.argv[3:]
if args[0] == "--also":
    also = args[1]; args = args[2:]
path = args[0]
what = args[1] if len(args) > 1 else ""
pairs = ast.literal_eval(sys.stdin.read())
d = tempfile.mkdtemp(prefix="gtverif-mk-")
dst = os.path.join(d, "repo")
subprocess.run(["git", "-C", "/repo", "worktree", "add", "--detach", "-f", dst, "HEAD"], check=True, capture_output=True)
try:
    fp = os.path.join(dst, path)
    s = open(fp).read()
    for old, new in pairs:
        assert s.count(old) == 1, "pattern occurs %d times: %r" % (s.count(old), old[:60])
        s = s.replace(old, new)
    open(fp, "w").write(s)
    diff = subprocess.run(["git", "-C", dst, "diff"], capture_output=True, text=True).stdout
    out = os.path.join("/verif/sim/mutants", name + ".patch")
    with open(out, "w") as f:
        f.write("# property: %s\n" % prop)
        if also:
            f.write("# also: %s\n" % also)
        f.write("# what: %s\n" % what)
        f.write(diff)
    print("wrote", out, len(diff.splitlines()), "lines")
finally:
    subprocess.run(["git", "-C", "/repo", "worktree", "remove", "--force", dst], capture_output=True)
    shutil.rmtree(d, ignore_errors=True)
