"""Simulator core shared by all engines: seeds, run loop, event log and digest,
violation handling, ddmin minimisation, replay, the parallel driver and evidence.

One integer decides everything: run r of property P under master seed S draws
from random.Random(sha256("P|S|r")).  A run is a pure function of (P, S, r,
tier) and the code under the repository root; it does not depend on the worker
count.  Nothing in here reads a clock for a decision (clocks are only read for
wall_s / runs-per-hour in the evidence and for the hang guard).
"""
import faulthandler
import hashlib
import json
import multiprocessing as mp
import os
import random
import signal
import sys
import time
import traceback
from collections import Counter
from concurrent.futures import ProcessPoolExecutor
from concurrent.futures.process import BrokenProcessPool

VERIF_DIR = os.path.dirname(os.path.dirname(os.path.abspath(__file__)))
STEP_TIMEOUT_S = 20          # one library call taking this long = hang
CHUNK_TIMEOUT_S = 900        # faulthandler guard per worker chunk


# --------------------------------------------------------------------------- repo

def bootstrap_repo(repo):
    """Import geometry_tools from `repo` (never from the editable install) and
    assert that this is what we got."""
    repo = os.path.realpath(repo)
    if sys.path[0] != repo:
        sys.path[:] = [p for p in sys.path if os.path.realpath(p or ".") != repo]
        sys.path.insert(0, repo)
    import geometry_tools
    got = os.path.realpath(os.path.dirname(geometry_tools.__file__))
    want = os.path.join(repo, "geometry_tools")
    if got != want:
        raise HarnessError("geometry_tools imported from %s, wanted %s" % (got, want))
    return repo


class HarnessError(Exception):
    pass


class StepTimeout(BaseException):
    """Raised by the SIGALRM guard inside a library call."""


# --------------------------------------------------------------------------- run isolation

class GlobalsGuard:
    """Process-global mutable state of the library (module-level containers, class-level
    containers, memoised functions, mutable default arguments).  A run that changed one of
    these would make the next run in the same worker depend on it, i.e. on the worker count;
    so every run starts from the state recorded at engine construction.  Restoration is done
    *in place* (clear + refill) so that references held elsewhere stay valid."""

    CONTAINERS = (dict, list, set)

    def __init__(self, modules, classes=()):
        import copy
        self.items = []
        self.funcs = []
        seen = set()
        for owner in list(modules) + list(classes):
            for name, val in list(vars(owner).items()):
                if name in ("__dict__", "__weakref__", "__doc__", "__module__", "__builtins__",
                            "__annotations__", "__all__", "__path__", "__slots__"):
                    continue
                if isinstance(val, self.CONTAINERS) and id(val) not in seen and not name.startswith("__"):
                    seen.add(id(val))
                    try:
                        self.items.append((owner, name, val, copy.deepcopy(val)))
                    except Exception:
                        pass
                f = getattr(val, "__func__", val)
                d = getattr(f, "__defaults__", None)
                if d and any(isinstance(x, self.CONTAINERS) for x in d):
                    try:
                        self.funcs.append((f, d, copy.deepcopy(d)))
                    except Exception:
                        pass
        self.modules = list(modules)
        self.dirty = 0
        self.cached = [val for mod in self.modules for val in vars(mod).values()
                       if callable(getattr(val, "cache_clear", None))]
        self.sizes = [len(vars(mod)) for mod in self.modules]

    def restore(self):
        import copy
        for owner, name, obj, initial in self.items:
            try:
                if obj != initial:
                    self.dirty += 1
                    obj.clear()
                    if isinstance(obj, dict):
                        obj.update(copy.deepcopy(initial))
                    elif isinstance(obj, list):
                        obj.extend(copy.deepcopy(initial))
                    else:
                        obj |= copy.deepcopy(initial)
                if getattr(owner, name, None) is not obj:
                    setattr(owner, name, obj)
            except Exception:
                pass
        for f, objs, initial in self.funcs:
            for obj, ini in zip(objs, initial):
                if isinstance(obj, self.CONTAINERS):
                    try:
                        if obj != ini:
                            self.dirty += 1
                            obj.clear()
                            if isinstance(obj, dict):
                                obj.update(copy.deepcopy(ini))
                            elif isinstance(obj, list):
                                obj.extend(copy.deepcopy(ini))
                            else:
                                obj |= copy.deepcopy(ini)
                    except Exception:
                        pass
            try:
                if f.__defaults__ is not objs:
                    f.__defaults__ = objs
            except Exception:
                pass
        # memoised functions (functools caches)
        for val in self.cached:
            try:
                val.cache_clear()
            except Exception:
                pass
        # containers / caches that appeared at module level since construction (lazily created)
        if [len(vars(mod)) for mod in self.modules] != self.sizes:
            known = {(id(o), n) for o, n, _, _ in self.items}
            for mod in self.modules:
                for name, val in list(vars(mod).items()):
                    if name.startswith("__") or (id(mod), name) in known:
                        continue
                    if isinstance(val, self.CONTAINERS) and val:
                        self.dirty += 1
                        try:
                            val.clear()
                        except Exception:
                            pass
                    cc = getattr(val, "cache_clear", None)
                    if callable(cc) and val not in self.cached:
                        self.cached.append(val)


def library_guard():
    import importlib
    mods = [importlib.import_module(m) for m in (
        "geometry_tools.automata.fsa", "geometry_tools.automata.gap_parse",
        "geometry_tools.automata.kbmag_utils", "geometry_tools.representation",
        "geometry_tools.projective", "geometry_tools.hyperbolic", "geometry_tools.utils.words",
        "geometry_tools.utils.core", "geometry_tools.lie.core", "geometry_tools.lie.hom")]
    classes = []
    for m in mods:
        for v in vars(m).values():
            if isinstance(v, type) and getattr(v, "__module__", "").startswith("geometry_tools"):
                classes.append(v)
    return GlobalsGuard(mods, classes)


# --------------------------------------------------------------------------- seeds

def run_rng(prop, seed, run):
    h = hashlib.sha256(("%s|%d|%d" % (prop, seed, run)).encode()).digest()
    return random.Random(int.from_bytes(h[:8], "big"))


def canon(obj):
    return json.dumps(obj, sort_keys=True, separators=(",", ":"), default=_json_default)


def _json_default(o):
    if isinstance(o, (set, frozenset)):
        return sorted(o, key=repr)
    if isinstance(o, tuple):
        return list(o)
    if isinstance(o, range):
        return list(o)
    try:
        import numpy as np
        if isinstance(o, np.integer):
            return int(o)
        if isinstance(o, np.floating):
            return float(o)
        if isinstance(o, np.ndarray):
            return o.tolist()
        if isinstance(o, np.bool_):
            return bool(o)
    except Exception:
        pass
    return repr(o)


def h64(s):
    if not isinstance(s, bytes):
        s = s.encode()
    return int.from_bytes(hashlib.blake2b(s, digest_size=8).digest(), "big")


# --------------------------------------------------------------------------- violations

def viol(prop, inv, detail, **extra):
    d = {"prop": prop, "inv": inv, "detail": str(detail)[:600]}
    d.update(extra)
    return d


class guarded_call:
    """Context manager arming a SIGALRM so a library call that never returns
    becomes a StepTimeout instead of a hung worker.  After the first hang seen by a process
    (`hang_seen`) the guard is shortened: one full-length wait establishes the hang, every
    further hanging step of the same batch should not cost that much again."""
    enabled = True
    hang_seen = False
    short = 3

    def __init__(self, seconds=None):
        if seconds is None:
            seconds = guarded_call.short if guarded_call.hang_seen else STEP_TIMEOUT_S
        self.seconds = seconds

    def __enter__(self):
        if guarded_call.enabled:
            signal.setitimer(signal.ITIMER_REAL, self.seconds)
        return self

    def __exit__(self, *exc):
        if guarded_call.enabled:
            signal.setitimer(signal.ITIMER_REAL, 0)
        return False


def _alarm_handler(signum, frame):
    raise StepTimeout()


def install_alarm():
    try:
        signal.signal(signal.SIGALRM, _alarm_handler)
    except ValueError:      # not in main thread
        guarded_call.enabled = False


# --------------------------------------------------------------------------- one run

class RunResult:
    __slots__ = ("run", "config", "ops", "outcomes", "digest", "violations",
                 "stats", "shape", "nontrivial", "state_hashes", "harness_error", "foreign")

    def __init__(self):
        self.run = None
        self.config = None
        self.ops = []
        self.outcomes = []
        self.digest = ""
        self.violations = []
        self.stats = Counter()
        self.shape = 0
        self.nontrivial = False
        self.state_hashes = []
        self.harness_error = None
        self.foreign = []


def execute(engine, prop, config, ops=None, rng=None, stop_on=None):
    """Execute one history.  Either `ops` (replay / minimisation) or `rng`
    (generation) is given.  Stops at the first step that yields a violation of
    `prop`; all violations found at that step are kept.  Violations attributed
    to other properties are kept as observations (`foreign`) and do not stop
    the run.  `stop_on` is accepted for symmetry with the minimiser and
    ignored: a minimised history must fail *first* (for this property) in the
    same class, which is what makes its replay fail "the same way"."""
    res = RunResult()
    res.config = config
    world = engine.new_world(config, prop)
    hasher = hashlib.sha256()
    hasher.update(canon(config).encode())
    shape = hashlib.blake2b(digest_size=8)
    nsteps = config["steps"] if ops is None else len(ops)
    try:
        for i in range(nsteps):
            if ops is None:
                op = engine.gen_op(rng, world)
                if op is None:
                    break
            else:
                op = ops[i]
            try:
                with guarded_call():
                    outcome, vs = engine.apply(world, op)
            except StepTimeout:
                outcome = "hang"
                guarded_call.hang_seen = True
                vs = [viol(engine.op_property(world, op, prop), "T.hang",
                           "library call did not return within the step guard (%ds)" % STEP_TIMEOUT_S)]
                # the interrupted call left its objects in an undefined state
                for key in ("h", "new", "other", "src"):
                    if op.get(key) is not None:
                        world.handles.pop(op[key], None)
                for hid_ in op.get("hs", []) or []:
                    world.handles.pop(hid_, None)
            except Exception:
                if res.foreign:
                    # an oracle tripped over an object that an earlier, already recorded violation of
                    # another property left in an impossible state: the run ends here
                    res.stats["aborted.oracle_crash_after_other_property_violation"] += 1
                    break
                raise
            res.ops.append(op)
            res.outcomes.append(outcome)
            sh = engine.state_hash(world)
            res.state_hashes.append(sh)
            hasher.update(canon(op).encode())
            hasher.update(outcome.encode())
            hasher.update(str(sh).encode())
            res.stats["op." + op["op"]] += 1
            res.stats["outcome." + outcome.split(":")[0]] += 1
            rel = world.last_relation
            shape.update(("%s/%s;" % (op["op"], rel)).encode())
            if rel:
                res.stats["rel." + rel] += 1
            if vs:
                for v in vs:
                    v["step"] = i
                    v["op"] = op["op"]
                own = [v for v in vs if v["prop"] == prop]
                if own:
                    res.violations = vs
                    break
                # violations of *other* properties are observations: recorded, and the run goes on,
                # so that on a tree where (say) the views are broken the language check still gets
                # to see what that does to the operations it is responsible for
                if len(res.foreign) < 8:
                    res.foreign.extend(vs)
        for k, n in world.stats.items():
            res.stats[k] += n
        res.nontrivial = bool(world.nontrivial)
    finally:
        engine.close(world)
    res.digest = hasher.hexdigest()
    res.shape = int.from_bytes(shape.digest(), "big")
    return res


def run_one(engine, prop, seed, run, tier):
    rng = run_rng(prop, seed, run)
    config = engine.gen_config(rng, prop, tier)
    config["run"] = run
    res = execute(engine, prop, config, rng=rng)
    res.run = run
    return res


# --------------------------------------------------------------------------- minimisation

def same_class(res, cls):
    return any((v["prop"], v["inv"]) == tuple(cls) for v in res.violations)


def minimise(engine, prop, config, ops, cls, budget=1500, max_seconds=240):
    """ddmin on the op list (chunks, then single ops), then engine-specific
    argument simplification; a candidate is accepted only if the same
    violation class (property, invariant id) persists."""
    calls = [0]
    t_end = time.time() + max_seconds      # wall-clock cap (a hanging candidate costs STEP_TIMEOUT_S);
    # it only bounds how far the history is shrunk - the result is a valid failing history either way

    def test(cand):
        if calls[0] >= budget or time.time() > t_end:
            return False
        calls[0] += 1
        try:
            r = execute(engine, prop, config, ops=cand, stop_on=cls)
        except Exception:
            return False
        return same_class(r, cls)

    # truncate to the failing prefix first
    r = execute(engine, prop, config, ops=ops, stop_on=cls)
    if same_class(r, cls):
        ops = ops[:len(r.ops)]
    n = 2
    while len(ops) >= 2 and calls[0] < budget:
        chunk = max(1, len(ops) // n)
        reduced = False
        for start in range(0, len(ops), chunk):
            cand = ops[:start] + ops[start + chunk:]
            if cand and test(cand):
                ops = cand
                n = max(n - 1, 2)
                reduced = True
                break
        if not reduced:
            if chunk == 1:
                break
            n = min(n * 2, len(ops))
    # argument simplification
    simp = getattr(engine, "simplify_op", None)
    if simp is not None:
        changed = True
        while changed and calls[0] < budget:
            changed = False
            for i in range(len(ops)):
                for cand_op in simp(ops[i]):
                    cand = ops[:i] + [cand_op] + ops[i + 1:]
                    if test(cand):
                        ops = cand
                        changed = True
                        break
    return ops, calls[0]


# --------------------------------------------------------------------------- replay files

def versions():
    import numpy
    out = {"python": sys.version.split()[0], "numpy": numpy.__version__}
    try:
        import scipy
        out["scipy"] = scipy.__version__
    except Exception:
        pass
    return out


def repo_rev(repo):
    import subprocess
    try:
        rev = subprocess.run(["git", "-C", repo, "rev-parse", "--short", "HEAD"],
                             capture_output=True, text=True, timeout=20).stdout.strip()
        dirty = subprocess.run(["git", "-C", repo, "status", "--porcelain", "-uno"],
                               capture_output=True, text=True, timeout=20).stdout.strip()
        return rev + ("+dirty" if dirty else "")
    except Exception:
        return "unknown"


def write_replay(path, prop, engine, seed, run, tier, config, ops, violation, repo, extra=None):
    os.makedirs(os.path.dirname(path), exist_ok=True)
    doc = {"property": prop, "engine": engine.name, "seed": seed, "run": run, "tier": tier,
           "config": config, "ops": ops, "violation": violation,
           "repo_rev": repo_rev(repo), "versions": versions()}
    if extra:
        doc.update(extra)
    with open(path, "w") as f:
        f.write(json.dumps(doc, indent=1, sort_keys=True, default=_json_default))
    return path


def replay_file(engines, path):
    """Re-execute a replay file; returns (reproduced, result, doc)."""
    with open(path) as f:
        doc = json.load(f)
    engine = engines[doc["engine"]]
    prop = doc["property"]
    cls = (doc["violation"]["prop"], doc["violation"]["inv"])
    res = execute(engine, prop, doc["config"], ops=doc["ops"], stop_on=cls)
    return same_class(res, cls), res, doc


# --------------------------------------------------------------------------- known findings

def load_known(path=None):
    path = path or os.environ.get("VERIF_KNOWN_FINDINGS") or os.path.join(VERIF_DIR, "known_findings.json")
    try:
        with open(path) as f:
            return json.load(f)["findings"]
    except FileNotFoundError:
        return []


def signature(violation, ops):
    return {"inv": violation["inv"], "ops": [o["op"] for o in ops]}


def match_known(known, prop, sig):
    for k in known:
        if k.get("status") != "open" or k.get("property") != prop:
            continue
        ks = k.get("signature", {})
        if ks.get("inv") == sig["inv"] and ks.get("ops") == sig["ops"]:
            return k
    return None


# --------------------------------------------------------------------------- parallel driver

_WORKER = {}


def _worker_init(engine_factory, repo):
    faulthandler.enable()
    install_alarm()
    _WORKER["engine"] = engine_factory()
    _WORKER["repo"] = repo


def _run_chunk(args):
    prop, seed, tier, start, stop, want_samples = args
    faulthandler.dump_traceback_later(CHUNK_TIMEOUT_S, exit=True)
    engine = _WORKER["engine"]
    stats = Counter()
    digest_sum = 0
    shapes = []
    nontriv_shapes = []
    finals = []
    viols = []
    samples = []
    steps = 0
    t0 = time.time()
    executed = 0
    for r in range(start, stop):
        executed += 1
        try:
            res = run_one(engine, prop, seed, r, tier)
        except Exception:
            return {"harness_error": "run %d: %s" % (r, traceback.format_exc())}
        steps += len(res.ops)
        stats.update(res.stats)
        digest_sum = (digest_sum + int(res.digest[:32], 16)) % (1 << 128)
        shapes.append(res.shape)
        if res.nontrivial:
            nontriv_shapes.append(res.shape)
        finals.extend(res.state_hashes[-1:])
        if res.violations or res.foreign:
            viols.append({"run": r, "config": res.config, "ops": res.ops,
                          "violations": res.violations + res.foreign})
            if len(viols) > 20:
                viols = viols[:20]
            if any(v["inv"] == "T.hang" for v in res.violations):
                break       # an own-property hang: one per chunk is enough
        if want_samples and len(samples) < want_samples and res.nontrivial:
            samples.append({"run": r, "ops": res.ops, "outcomes": res.outcomes})
    faulthandler.cancel_dump_traceback_later()
    import numpy as np
    return {"stats": stats, "digest_sum": digest_sum, "steps": steps, "runs": executed,
            "shapes": np.array(nontriv_shapes, dtype=np.uint64),
            "all_shapes": np.array(shapes, dtype=np.uint64),
            "finals": np.array(finals, dtype=np.uint64),
            "violations": viols, "samples": samples, "busy_s": time.time() - t0}


def drive(engine_factory, prop, seed, tier, nruns, repo, workers=None, chunk=None, first_run=0):
    """Run `nruns` simulated runs across forked workers.  Results are identical
    for any worker count (chunks are merged in run-index order and all merged
    quantities are order-independent)."""
    workers = workers or min(16, os.cpu_count() or 1)
    chunk = chunk or max(1, min(2000, nruns // (workers * 4) or 1))
    tasks = []
    r = first_run
    first = True
    while r < first_run + nruns:
        stop = min(first_run + nruns, r + chunk)
        tasks.append((prop, seed, tier, r, stop, 3 if first else 0))
        first = False
        r = stop
    merged = {"stats": Counter(), "digest_sum": 0, "steps": 0, "runs": 0,
              "violations": [], "samples": [], "busy_s": 0.0}
    shapes, all_shapes, finals = [], [], []
    if workers == 1:
        _worker_init(engine_factory, repo)
        results = map(_run_chunk, tasks)
        pool = None
    else:
        ctx = mp.get_context("fork")
        pool = ProcessPoolExecutor(max_workers=workers, mp_context=ctx,
                                   initializer=_worker_init, initargs=(engine_factory, repo))
        results = pool.map(_run_chunk, tasks)
    try:
        for out in results:
            if "harness_error" in out:
                raise HarnessError(out["harness_error"])
            merged["stats"].update(out["stats"])
            merged["digest_sum"] = (merged["digest_sum"] + out["digest_sum"]) % (1 << 128)
            merged["steps"] += out["steps"]
            merged["runs"] += out["runs"]
            merged["busy_s"] += out["busy_s"]
            merged["violations"].extend(out["violations"])
            merged["samples"].extend(out["samples"])
            shapes.append(out["shapes"])
            all_shapes.append(out["all_shapes"])
            finals.append(out["finals"])
    except BrokenProcessPool as e:
        raise HarnessError("worker died (hang guard or crash): %r" % (e,))
    finally:
        if pool is not None:
            pool.shutdown(wait=True, cancel_futures=True)
    import numpy as np
    merged["distinct_nontrivial"] = int(len(np.unique(np.concatenate(shapes)))) if shapes else 0
    merged["distinct_shapes"] = int(len(np.unique(np.concatenate(all_shapes)))) if all_shapes else 0
    merged["distinct_final_states"] = int(len(np.unique(np.concatenate(finals)))) if finals else 0
    merged["violations"].sort(key=lambda v: v["run"])
    merged["digest"] = "%032x" % merged["digest_sum"]
    return merged
