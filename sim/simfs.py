"""Simulated disk.

A scoped wrapper over builtins.open intercepts only (i) paths under a per-process
virtual root and (ii) paths under geometry_tools/automata/builtin/.  An intercepted
open returns the real CPython text stack (TextIOWrapper over BufferedReader) over a
raw layer the simulator owns: the raw layer delivers scheduled short reads and raises
the scheduled fault at the scheduled call.  Every virtual file is also materialised
in a real scratch directory, so an implementation that bypasses `open` still reads
correct bytes (the evidence then shows seam_hits = 0 instead of a false alarm).

Also here: the kbmag record *writer* (table -> text in the layout of the shipped
files, with the variations a GAP printer makes) and an independent table *reader*
for the shipped files (a regex reader that shares no code with the repository's
parser).
"""
import atexit
import builtins
import errno
import io
import os
import re
import shutil
import tempfile

_REAL_OPEN = builtins.open


class FaultPlan:
    """What the simulated disk does during one load.

    kind: None | 'open_error' | 'read_error' | 'truncated' | 'bitflip'
    chunks: list of ints, sizes of successive raw reads (cycled); benign short reads
    bufsize: text-layer buffer size
    at: for read_error the index of the raw read that fails; for truncated the byte
        length kept; for bitflip the byte offset; exc: which errno for open_error
    """
    def __init__(self, kind=None, chunks=None, bufsize=8192, at=0, bit=0, exc="ENOENT"):
        self.kind = kind
        self.chunks = chunks or [1 << 16]
        self.bufsize = max(1, int(bufsize))
        self.at = at
        self.bit = bit
        self.exc = exc
        # filled while the plan is active
        self.fired = False
        self.raw_reads = 0
        self.opened = 0
        self.closed = 0

    @staticmethod
    def from_json(d):
        if d is None:
            return FaultPlan()
        return FaultPlan(d.get("kind"), d.get("chunks"), d.get("bufsize", 8192),
                         d.get("at", 0), d.get("bit", 0), d.get("exc", "ENOENT"))


class SimRaw(io.RawIOBase):
    def __init__(self, data, plan, name):
        super().__init__()
        self._data = data
        self._pos = 0
        self._plan = plan
        self.name = name
        plan.opened += 1

    def readable(self):
        return True

    def readinto(self, b):
        plan = self._plan
        idx = plan.raw_reads
        plan.raw_reads += 1
        if plan.kind == "read_error" and idx == plan.at:
            plan.fired = True
            raise OSError(errno.EIO, "simulated I/O error", self.name)
        want = plan.chunks[idx % len(plan.chunks)]
        n = max(1, min(len(b), want, len(self._data) - self._pos)) if self._pos < len(self._data) else 0
        b[:n] = self._data[self._pos:self._pos + n]
        self._pos += n
        return n

    def close(self):
        if not self.closed:
            self._plan.closed += 1
        super().close()


_OPEN_ERRORS = {
    "ENOENT": lambda p: FileNotFoundError(errno.ENOENT, "No such file or directory", p),
    "EACCES": lambda p: PermissionError(errno.EACCES, "Permission denied", p),
    "EMFILE": lambda p: OSError(errno.EMFILE, "Too many open files", p),
}


class SimDisk:
    """Process-wide simulated disk (one per worker process)."""

    def __init__(self):
        self.root = None
        self.builtin_dir = None
        self.files = {}          # realpath -> bytes  (virtual files)
        self.plan = None         # active FaultPlan, or None = pass-through w/o faults
        self.seam_hits = 0
        self.installed = False

    # ---- lifecycle
    def install(self, builtin_dir):
        if self.installed:
            return
        self.builtin_dir = os.path.realpath(builtin_dir)
        self.root = tempfile.mkdtemp(prefix="gtverif-disk-")
        atexit.register(self.cleanup, os.getpid())
        disk = self

        def sim_open(file, mode="r", buffering=-1, encoding=None, errors=None,
                     newline=None, closefd=True, opener=None):
            try:
                p = os.path.realpath(os.fspath(file))
            except TypeError:
                return _REAL_OPEN(file, mode, buffering, encoding, errors, newline, closefd, opener)
            if disk.plan is not None and disk._mine(p) and set(mode) <= set("rt"):
                return disk._open(p, encoding, errors, newline)
            return _REAL_OPEN(file, mode, buffering, encoding, errors, newline, closefd, opener)

        sim_open.__wrapped__ = _REAL_OPEN
        builtins.open = sim_open
        io.open = sim_open
        self.installed = True

    def cleanup(self, pid=None):
        if pid is not None and pid != os.getpid():
            return
        if self.root and os.path.isdir(self.root):
            shutil.rmtree(self.root, ignore_errors=True)

    def reset(self):
        """Empty the virtual disk (between runs)."""
        for p in list(self.files):
            try:
                os.unlink(p)
            except OSError:
                pass
        self.files.clear()
        self.plan = None

    # ---- files
    def write_file(self, name, data):
        p = os.path.realpath(os.path.join(self.root, name))
        with _REAL_OPEN(p, "wb") as f:
            f.write(data)
        self.files[p] = data
        return p

    def path_of(self, name):
        return os.path.realpath(os.path.join(self.root, name))

    def _mine(self, p):
        return p in self.files or (self.builtin_dir and p.startswith(self.builtin_dir + os.sep))

    def _bytes(self, p):
        if p in self.files:
            return self.files[p]
        with _REAL_OPEN(p, "rb") as f:
            return f.read()

    def _open(self, p, encoding, errors, newline):
        plan = self.plan
        self.seam_hits += 1
        if plan.kind == "open_error":
            plan.fired = True
            raise _OPEN_ERRORS[plan.exc](p)
        data = self._bytes(p)   # a missing file raises the genuine FileNotFoundError
        if plan.kind == "truncated":
            plan.fired = True
            data = data[:max(0, min(len(data), plan.at))]
        elif plan.kind == "bitflip" and data:
            plan.fired = True
            i = plan.at % len(data)
            data = data[:i] + bytes([data[i] ^ (1 << (plan.bit % 7))]) + data[i + 1:]
        raw = SimRaw(data, plan, p)
        buf = io.BufferedReader(raw, buffer_size=plan.bufsize)
        return io.TextIOWrapper(buf, encoding=encoding or "utf-8", errors=errors, newline=newline)


DISK = SimDisk()


# --------------------------------------------------------------------------- kbmag writer

def kbmag_text(table, layout):
    """Render a word-acceptor record like the ones kbmag writes.

    table = {"names": [...], "n": int, "transitions": [[...]*n], "initial": [...]}
    layout = dict of printer variations (all optional):
      recname, indent, eol ('\n' | '\r\n'), trailing_newline, assign (' := ' | ':=' | ' :=' ...),
      comma (',' | ', '), accepting ('interval' | 'list'), initial_interval (bool),
      field_order (permutation seed list), row_break (bool), row_interval (bool: rows of consecutive
      integers are written [a..b])
    """
    names, n, trans, initial = table["names"], table["n"], table["transitions"], table["initial"]
    eol = layout.get("eol", "\n")
    ind = " " * layout.get("indent", 2)
    if layout.get("tab"):
        ind = "\t" * max(1, layout.get("indent", 2) // 2)
    asg = layout.get("assign", " := ")
    com = layout.get("comma", ",")
    recname = layout.get("recname", "_RWS.wa")

    def lst(xs):
        return "[" + com.join(str(x) for x in xs) + "]"

    if layout.get("accepting_subset") is not None:
        # a proper subset of accepting states (generic kbmag automata; the transition table is what it is)
        accepting = lst([i for i in range(1, n + 1) if i in set(layout["accepting_subset"])])
    elif layout.get("accepting", "interval") == "interval" and n >= 1:
        accepting = "[1..%d]" % n
    else:
        accepting = lst(range(1, n + 1))
    if layout.get("initial_interval") and len(initial) >= 1 and \
            initial == list(range(initial[0], initial[0] + len(initial))):
        init_s = "[%d..%d]" % (initial[0], initial[-1])
    else:
        init_s = lst(initial)
    rowsep = "," + (eol + ind * 3 if layout.get("row_break", True) else "")

    def row(r):
        # GAP prints a list of consecutive integers as an interval
        if layout.get("row_interval") and len(r) >= 2 and list(r) == list(range(r[0], r[0] + len(r))):
            return "[%d..%d]" % (r[0], r[-1])
        return lst(r)
    rows = "[" + rowsep.join(row(r) for r in trans) + (" " if layout.get("row_pad") else "") + \
           (eol + ind * 3 if layout.get("row_break", True) else "") + "]"
    ntr = sum(1 for r in trans for t in r if t != 0)
    fields = [
        ("isFSA", "true"),
        ("alphabet", "rec(" + eol + ind * 2 + ("type%s\"identifiers\"," % asg) + eol +
         ind * 2 + ("size%s%d," % (asg, len(names))) + eol +
         ind * 2 + ("format%s\"dense\"," % asg) + eol +
         ind * 2 + ("names%s%s" % (asg, lst(['"%s"' % x for x in names] if layout.get("quote_names")
                                                 else names))) + eol + ind * 2 + ")"),
        ("states", "rec(" + eol + ind * 2 + ("type%s\"simple\"," % asg) + eol +
         ind * 2 + ("size%s%d" % (asg, n)) + eol + ind * 2 + ")"),
        ("flags", "[\"DFA\",\"minimized\",\"BFS\",\"accessible\",\"trim\"]"),
        ("initial", init_s),
        ("accepting", accepting),
        ("table", "rec(" + eol + ind * 2 + ("format%s\"dense deterministic\"," % asg) + eol +
         ind * 2 + ("numTransitions%s%d," % (asg, ntr)) + eol +
         ind * 2 + ("transitions%s%s" % (asg, rows)) + eol + ind * 2 + ")"),
    ]
    order = layout.get("field_order")
    if order:
        # isFSA stays a field like the others; kbmag prints it first, GAP may not
        fields = [fields[i] for i in order]
    body = ("," + eol).join(ind + k + asg + v for k, v in fields)
    text = recname + asg + "rec(" + eol + body + eol + ");"
    if layout.get("trailing_newline", True):
        text += eol
    return text


def table_automaton(table):
    """(V, E, S) the record denotes: edges (i, t, name_j) for t != 0, vertices 1..n."""
    names, n, trans = table["names"], table["n"], table["transitions"]
    V = set(range(1, n + 1))
    E = set()
    for i, row in enumerate(trans):
        for j, t in enumerate(row):
            if t != 0:
                E.add((i + 1, t, names[j]))
    return V, E, list(table["initial"])


# --------------------------------------------------------------------------- independent reader

_NAMES_RE = re.compile(r"names\s*:=\s*\[([^\]]*)\]")
_INIT_RE = re.compile(r"initial\s*:=\s*\[([^\]]*)\]")
_TRANS_RE = re.compile(r"transitions\s*:=\s*\[((?:\s*\[[^\]]*\]\s*,?)*)\s*\]", re.S)
_ROW_RE = re.compile(r"\[([^\]]*)\]")


def _ints(s):
    s = s.strip()
    m = re.fullmatch(r"(-?\d+)\s*\.\.\s*(-?\d+)", s)
    if m:
        return list(range(int(m.group(1)), int(m.group(2)) + 1))
    return [int(x) for x in s.split(",") if x.strip()]


def read_table(text):
    """Regex reader for the shipped word-acceptor files (first FSA record in the
    text).  Independent of geometry_tools.automata.gap_parse."""
    names = [x.strip().strip('"') for x in _NAMES_RE.search(text).group(1).split(",") if x.strip()]
    initial = _ints(_INIT_RE.search(text).group(1))
    rows = [_ints(r) for r in _ROW_RE.findall(_TRANS_RE.search(text).group(1))]
    return {"names": names, "n": len(rows), "transitions": rows, "initial": initial}


def builtin_tables(builtin_dir):
    out = {}
    for fn in sorted(os.listdir(builtin_dir)):
        p = os.path.join(builtin_dir, fn)
        if not os.path.isfile(p):
            continue
        with _REAL_OPEN(p, "rb") as f:
            data = f.read()
        try:
            out[fn] = (read_table(data.decode("utf-8")), len(data))
        except Exception:
            out[fn] = (None, len(data))
    return out
