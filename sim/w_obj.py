"""Engine W-OBJ: cached derived data through operation chains (C11).

Handles: objects carrying derived data - projective.Polygon (edges), hyperbolic.Polygon
(edge segments), hyperbolic.Segment (ideal endpoints), hyperbolic.TangentVector
(projected vector) - of composite rank 0-2 in dimension 2-3, held by logical callers,
plus caller-owned ndarrays in several memory layouts.  No stub: everything is real code.
Reference model: per handle its class and an ndarray of homogeneous representatives
of every unit's rows (what the object should represent).

Invariants after every step on every live handle and buffer:
  A  obj.aux_data == type(obj)(obj.proj_data).aux_data, projectively, row by row
  B  obj.proj_data == model, projectively, row by row; shape and type match
  C  every caller buffer is projectively equal to its snapshot
  D  A and B on every handle that was not operated on
"""
import math
from collections import Counter

import numpy as np

from .core import viol, h64, canon

NAME = "W-OBJ"

RULE = ("One evaluation = one simulated run: a seeded history of 6-30 operations (construct from a "
        "caller buffer in C/Fortran/strided/reversed layout, copy-construct, stack, apply a single "
        "isometry/transformation, reshape, flatten, index, item assignment, combine, astype, coordinate "
        "setters) on up to 6 polygons/segments/tangent vectors of composite rank 0-2, interleaved with "
        "read-only queries; invariants A-D are evaluated after every step on every live handle and "
        "buffer.  Non-trivial = the run contains a state-changing or deriving operation on a handle that "
        "shares origin (copy, flatten, reshape, index, stack) with another live handle, or a query followed "
        "by a check of a different handle.  Distinct = distinct hash of the sequence of (operation kind, "
        "class of the touched handle, relation to the previously touched handle).")

COMPONENTS = {"real": ["geometry_tools.projective (ProjectiveObject, Point, PointPair, Polygon, Transformation)",
                       "geometry_tools.hyperbolic (Point, Segment, Polygon, TangentVector, Isometry)",
                       "geometry_tools.utils.core (normalize, matrix_product, find_isometry, ...)", "numpy"],
              "stub": []}
ASSUMPTIONS = ["points are generated inside Klein radius 0.8 and never moved further than hyperbolic "
               "distance 6 from the origin; the two endpoints of a generated segment carry equal Minkowski "
               "norm, so the quadratic for ideal endpoints stays well conditioned",
               "only single (non-composite) transformations are applied; only projective and Klein "
               "coordinates are used as inputs",
               "projective equality of rows u,v: |u|^2|v|^2-|<u,v>|^2 <= (1e-6)^2 |u|^2|v|^2, both zero or neither; "
               "tangent-vector rows are compared up to positive scale",
               "a query may raise; only its effect on the represented points is checked"]

TOL = 1e-6
KINDS = ("PPoly", "HPoly", "HSeg", "HTan")


# --------------------------------------------------------------------------- comparisons

def rows_proj_equal(U, V, positive=False):
    """row-wise projective equality of two (m, d) arrays; returns index of first bad row or -1"""
    U = np.asarray(U)
    V = np.asarray(V)
    if U.shape != V.shape:
        return 0
    if U.size == 0:
        return -1
    U = U.astype(np.complex128)
    V = V.astype(np.complex128)
    if not (np.all(np.isfinite(U)) and np.all(np.isfinite(V))):
        bad = np.where(~(np.all(np.isfinite(U), axis=-1) & np.all(np.isfinite(V), axis=-1)))[0]
        return int(bad[0])
    uu = np.sum(np.abs(U) ** 2, axis=-1)
    vv = np.sum(np.abs(V) ** 2, axis=-1)
    uv = np.sum(U * np.conj(V), axis=-1)
    zero_u = uu == 0
    zero_v = vv == 0
    ok = (uu * vv - np.abs(uv) ** 2) <= (TOL ** 2) * uu * vv
    ok = np.where(zero_u | zero_v, zero_u & zero_v, ok)
    if positive:
        ok = ok & ((uv.real > 0) | (zero_u & zero_v))
    bad = np.where(~ok)[0]
    return int(bad[0]) if len(bad) else -1


# --------------------------------------------------------------------------- generation helpers

def klein_point(rng, n, rmax=0.8):
    while True:
        x = [rng.uniform(-rmax, rmax) for _ in range(n)]
        if sum(t * t for t in x) <= rmax * rmax:
            return x


def hyp_rep(x, s):
    """homogeneous representative of Minkowski norm -s^2 of the Klein point x"""
    r2 = sum(t * t for t in x)
    f = s / math.sqrt(1.0 - r2)
    return [f] + [f * t for t in x]


def dist2(x, y):
    return math.sqrt(sum((a - b) ** 2 for a, b in zip(x, y)))


def gen_unit(rng, kind, n, k, wide=False):
    """one unit as a nested list of rows; `wide`: homogeneous representatives (and tangent vectors)
    of very different magnitudes"""
    if kind == "PPoly":
        rows = []
        for _ in range(k):
            while True:
                v = [rng.uniform(-1, 1) for _ in range(n + 1)]
                if sum(t * t for t in v) >= 0.09:
                    break
            if wide:
                f = 10.0 ** rng.uniform(-6, 6)
                v = [t * f for t in v]
            rows.append(v)
        if wide and k >= 4 and rng.random() < 0.15:
            rows[-1] = list(rows[0])     # a closed ring is a valid vertex list
        return rows
    s = rng.uniform(0.5, 2.0)
    if wide:
        s = 10.0 ** rng.uniform(-6, 6)
        if rng.random() < 0.3:
            s = -s          # a lift on the other sheet represents the same point
    if kind == "HPoly":
        pts = []
        while len(pts) < k:
            x = klein_point(rng, n)
            if all(dist2(x, y) >= 0.15 for y in pts):
                pts.append(x)
        if wide:
            # every vertex with its own sign; sometimes a closed ring (last vertex = first)
            rows = [hyp_rep(x, s if rng.random() < 0.7 else -s) for x in pts]
            if k >= 4 and rng.random() < 0.15:
                rows[-1] = list(rows[0])
            return rows
        return [hyp_rep(x, s) for x in pts]
    if kind == "HSeg":
        while True:
            x, y = klein_point(rng, n), klein_point(rng, n)
            if dist2(x, y) >= 0.2:
                return [hyp_rep(x, s), hyp_rep(y, s)]
    # HTan: a point and a vector with a decent tangent component
    x = klein_point(rng, n, 0.6)
    p = hyp_rep(x, s)
    while True:
        v = [rng.uniform(-1, 1) for _ in range(n + 1)]
        # tangent component: v - <v,p>/<p,p> p
        mp = -v[0] * p[0] + sum(a * b for a, b in zip(v[1:], p[1:]))
        pp = -p[0] * p[0] + sum(a * a for a in p[1:])
        t = [a - mp / pp * b for a, b in zip(v, p)]
        tn = -t[0] * t[0] + sum(a * a for a in t[1:])
        if tn >= 0.1:
            if wide:
                f = 10.0 ** rng.uniform(-6, 6)
                v = [a * f for a in v]
            return [p, v]


def _mink_l(u, v):
    return -u[0] * v[0] + sum(a * b for a, b in zip(u[1:], v[1:]))


def gen_unit_int(rng, kind, n, k):
    """a unit with integer coordinates (exact integer input is valid input)"""
    def hpoint():
        while True:
            p = [rng.randint(4, 7)] + [rng.randint(-2, 2) for _ in range(n)]
            if _mink_l(p, p) < 0:
                return p
    if kind == "PPoly":
        rows = []
        while len(rows) < k:
            v = [rng.randint(-3, 3) for _ in range(n + 1)]
            if any(v):
                rows.append(v)
        return rows
    if kind == "HPoly":
        pts = []
        while len(pts) < k:
            p = hpoint()
            if all(_mink_l([a - b for a, b in zip(p, q)], [a - b for a, b in zip(p, q)]) >= 1 for q in pts):
                pts.append(p)
        return pts
    if kind == "HSeg":
        while True:
            p, q = hpoint(), hpoint()
            d = [a - b for a, b in zip(p, q)]
            if _mink_l(d, d) >= 1:
                return [p, q]
    p = hpoint()
    while True:
        v = [rng.randint(-3, 3) for _ in range(n + 1)]
        c = _mink_l(v, p) / _mink_l(p, p)
        t = [a - c * b for a, b in zip(v, p)]
        if _mink_l(t, t) >= 0.5:
            return [p, v]


def gen_data(rng, kind, n, k, shape, wide=False, ints=False):
    if ints:
        def reci(sh):
            if not sh:
                return gen_unit_int(rng, kind, n, k)
            return [reci(sh[1:]) for _ in range(sh[0])]
        return reci(list(shape))
    return _gen_data_float(rng, kind, n, k, shape, wide)


def _gen_data_float(rng, kind, n, k, shape, wide=False):
    def rec(sh):
        if not sh:
            return gen_unit(rng, kind, n, k, wide)
        return [rec(sh[1:]) for _ in range(sh[0])]
    return rec(list(shape))


def gen_isometry(rng, n):
    """boost * rotation in O(n,1) as a row-acting matrix, and the boost's rapidity"""
    d = n + 1
    t = rng.uniform(-0.6, 0.6)
    i = rng.randrange(1, d)
    B = [[1.0 if a == b else 0.0 for b in range(d)] for a in range(d)]
    B[0][0] = math.cosh(t)
    B[i][i] = math.cosh(t)
    B[0][i] = math.sinh(t)
    B[i][0] = math.sinh(t)
    R = [[1.0 if a == b else 0.0 for b in range(d)] for a in range(d)]
    a, b = rng.sample(range(1, d), 2)
    th = rng.uniform(-math.pi, math.pi)
    R[a][a] = math.cos(th)
    R[b][b] = math.cos(th)
    R[a][b] = -math.sin(th)
    R[b][a] = math.sin(th)
    if rng.random() < 0.2:          # orientation-reversing
        R[a] = [-x for x in R[a]]
    M = (np.array(B) @ np.array(R)).tolist()
    return M, abs(t)


def gen_transformation(rng, n):
    d = n + 1
    while True:
        M = np.eye(d) + 0.5 * np.array([[rng.uniform(-1, 1) for _ in range(d)] for _ in range(d)])
        if np.linalg.cond(M) <= 12:
            return M.tolist()


# --------------------------------------------------------------------------- world

class Handle:
    __slots__ = ("id", "real", "kind", "n", "data", "reach", "parent", "family", "cplx", "isint")

    def __init__(self, hid, real, kind, n, data, reach, parent=None, family=None, cplx=False, isint=False):
        self.id = hid
        self.real = real
        self.kind = kind
        self.n = n
        self.data = data            # ndarray, shape = composite shape + unit shape
        self.reach = reach          # bound on hyperbolic distance of its points from the origin
        self.parent = parent
        self.family = family
        self.cplx = cplx
        self.isint = isint

    @property
    def shape(self):
        return self.data.shape[:-2]

    @property
    def k(self):
        return self.data.shape[-2]


class World:
    def __init__(self, cfg, prop):
        self.cfg = cfg
        self.prop = prop
        self.handles = {}
        self.buffers = {}       # id -> (array as passed, snapshot copy, layout)
        self.stats = Counter()
        self.last_relation = ""
        self.nontrivial = False
        self.last_touched = None
        self.next_id = 0
        self.steps_done = 0

    def live(self):
        return list(self.handles.values())


class Engine:
    name = NAME

    def __init__(self):
        from geometry_tools import projective, hyperbolic
        self.projective = projective
        self.hyperbolic = hyperbolic
        np.seterr(all="ignore")
        import warnings
        warnings.simplefilter("ignore")
        from .core import library_guard
        self.guard = library_guard()
        self.classes = {"PPoly": projective.Polygon, "HPoly": hyperbolic.Polygon,
                        "HSeg": hyperbolic.Segment, "HTan": hyperbolic.TangentVector}

    # ------------------------------------------------------------------ config
    def gen_config(self, rng, prop, tier):
        cfg = {
            "engine": NAME,
            "steps": rng.choice([6, 10, 16, 22, 30, 45] if tier == "thorough" else [6, 10, 16, 22, 30]),
            "n": rng.choice([2, 2, 3]),
            "max_handles": rng.randint(2, 8 if tier == "thorough" else 6),
            "callers": rng.randint(2, 4),
            "kinds": sorted(rng.sample(KINDS, rng.randint(1, 4))),
            "polyk": rng.choice([3, 4, 5]),
            "wide": rng.random() < 0.25,
            "scribble": rng.random() < 0.3,
            "ints": rng.random() < 0.2,
        }
        w = {"mk": 14, "copy": 8, "stack": 6, "apply": 14, "reshape": 6, "flatten": 6, "index": 8,
             "setitem": 10, "combine": 7, "astype": 4, "setter": 5, "query": 22, "reject": 1, "drop": 3,
             "scribble": 3, "fn": 4}
        style = rng.choice(["flat", "query", "setitem", "apply", "shape"])
        if style == "shape":
            for g in ("reshape", "flatten", "index", "stack", "combine"):
                w[g] *= 2
        elif style != "flat":
            w[style] *= 3
        cfg["weights"] = w
        cfg["style"] = style
        return cfg

    def new_world(self, cfg, prop):
        if getattr(self.hyperbolic, "CHECK_LIGHT_CONE", False) is not False:
            self.hyperbolic.CHECK_LIGHT_CONE = False
        self.guard.restore()
        return World(cfg, prop)

    def close(self, world):
        world.handles.clear()
        world.buffers.clear()

    def op_property(self, world, op, prop):
        return "C11"

    def state_hash(self, world):
        parts = []
        for h in world.handles.values():
            parts.append((h.id, h.kind, list(h.data.shape), h.cplx, h.parent, h.family))
        parts.append(sorted(world.buffers))
        return h64(canon(parts))

    # ------------------------------------------------------------------ generation
    def _new_id(self, world):
        world.next_id += 1
        return "o%d" % world.next_id

    def _pick(self, rng, world, pred=None):
        live = [h for h in world.live() if pred is None or pred(h)]
        if not live:
            return None
        lt = world.last_touched
        if lt in world.handles and rng.random() < 0.5:
            h0 = world.handles[lt]
            rel = [h for h in live if h.id == lt or h.family == h0.family]
            if rel:
                return rng.choice(rel)
        return rng.choice(live)

    def gen_op(self, rng, world):
        cfg = world.cfg
        live = world.live()
        w = dict(cfg["weights"])
        if not live:
            op = self._gen_mk(rng, world)
        else:
            if len(live) >= cfg["max_handles"]:
                for g in ("mk", "copy", "stack", "reshape", "flatten", "index", "combine", "astype"):
                    w[g] = max(1, w[g] // 4)
                w["drop"] = 12
            groups = sorted(w)
            op = None
            for _ in range(8):
                g = rng.choices(groups, [w[x] for x in groups])[0]
                op = getattr(self, "_gen_" + g)(rng, world)
                if op is not None:
                    break
            if op is None:
                op = self._gen_mk(rng, world)
        op["caller"] = rng.randrange(cfg["callers"])
        return op

    def _rand_shape(self, rng):
        r = rng.random()
        if r < 0.3:
            return []
        if r < 0.75:
            return [rng.randint(1, 4)]
        return [rng.randint(1, 3), rng.randint(1, 2)]

    def _gen_mk(self, rng, world):
        cfg = world.cfg
        kind = rng.choice(cfg["kinds"])
        n = cfg["n"]
        k = cfg["polyk"] if kind in ("PPoly", "HPoly") else 2
        shape = self._rand_shape(rng)
        ints = bool(cfg.get("ints")) and rng.random() < 0.5
        data = gen_data(rng, kind, n, k, shape, cfg.get("wide"), ints)
        via = "array"
        if kind != "PPoly" and rng.random() < 0.3 and not ints:
            via = "klein"          # hyperbolic.Point(klein, model='klein') then cls(points)
        if kind in ("HSeg", "HTan") and rng.random() < 0.3:
            via = "two"            # cls(endpoint1, endpoint2)
        return {"op": "mk", "new": self._new_id(world), "kind": kind, "n": n, "data": data,
                "layout": rng.choice(["C", "C", "F", "strided", "reversed"]), "via": via, "int": ints}

    def _gen_copy(self, rng, world):
        h = self._pick(rng, world)
        op = {"op": "copy", "new": self._new_id(world), "h": h.id}
        if h.kind == "HPoly" and rng.random() < 0.3:
            op["as"] = "PPoly"      # a projective polygon built from a hyperbolic one (same derived data: edges)
        return op

    def _gen_stack(self, rng, world):
        h = self._pick(rng, world, lambda x: len(x.shape) <= 1)
        if h is None:
            return None
        mates = [o for o in world.live() if o.kind == h.kind and o.data.shape == h.data.shape
                 and o.cplx == h.cplx]
        o = rng.choice(mates)
        ids = [h.id, o.id]
        if rng.random() < 0.3:
            ids.append(rng.choice(mates).id)
        if int(np.prod(h.shape, dtype=int)) * len(ids) > 12:
            return None
        return {"op": "stack", "new": self._new_id(world), "hs": ids}

    def _gen_apply(self, rng, world):
        h = self._pick(rng, world)
        if h.kind == "PPoly":
            return {"op": "apply", "new": self._new_id(world), "h": h.id,
                    "matrix": gen_transformation(rng, h.n), "rapidity": 0.0,
                    "col": rng.random() < 0.3, "how": rng.choice(["matmul", "apply"])}
        M, t = gen_isometry(rng, h.n)
        if h.reach + t > 6.0:
            return None
        return {"op": "apply", "new": self._new_id(world), "h": h.id, "matrix": M, "rapidity": t,
                "col": rng.random() < 0.3, "how": rng.choice(["matmul", "apply"])}

    def _gen_reshape(self, rng, world):
        h = self._pick(rng, world, lambda x: len(x.shape) >= 1)
        if h is None:
            return None
        N = int(np.prod(h.shape, dtype=int))
        opts = [[N]]
        for a in range(1, N + 1):
            if N % a == 0:
                opts.append([a, N // a])
        return {"op": "reshape", "new": self._new_id(world), "h": h.id, "shape": rng.choice(opts)}

    def _gen_flatten(self, rng, world):
        h = self._pick(rng, world)
        return {"op": "flatten", "new": self._new_id(world), "h": h.id}

    def _rand_key(self, rng, m):
        r = rng.random()
        if r < 0.4:
            return {"t": "int", "i": rng.randrange(-m, m)}
        if r < 0.7:
            a = rng.randrange(0, m)
            b = rng.randrange(a + 1, m + 1)
            return {"t": "slice", "a": a, "b": b, "s": rng.choice([1, 1, 2])}
        mask = [rng.random() < 0.5 for _ in range(m)]
        if not any(mask):
            mask[rng.randrange(m)] = True
        return {"t": "mask", "m": mask}

    def _key_for(self, rng, h):
        key = self._rand_key(rng, h.shape[0])
        if len(h.shape) >= 2 and rng.random() < 0.4:
            # a key over both composite axes: (i, j), (slice, j), (i, slice)
            first = rng.choice([{"t": "int", "i": rng.randrange(-h.shape[0], h.shape[0])},
                                {"t": "slice", "a": 0, "b": h.shape[0], "s": 1}])
            second = {"t": "int", "i": rng.randrange(-h.shape[1], h.shape[1])}
            if rng.random() < 0.3:
                a = rng.randrange(0, h.shape[1])
                second = {"t": "slice", "a": a, "b": rng.randrange(a + 1, h.shape[1] + 1), "s": 1}
            key = {"t": "tuple", "k": [first, second]}
        return key

    def _gen_index(self, rng, world):
        if rng.random() < 0.25:
            # a key that reaches into the vertex axis of a polygon: P[:3], P[::-1], Ps[:, 1:]
            h = self._pick(rng, world, lambda x: x.kind in ("PPoly", "HPoly") and len(x.shape) <= 1 and x.k >= 3)
            if h is not None:
                k = h.k
                r = rng.random()
                if r < 0.35:
                    vk = {"t": "slice", "a": None, "b": None, "s": -1}
                elif r < 0.7:
                    a = rng.randrange(0, k - 1)
                    vk = {"t": "slice", "a": a, "b": rng.randrange(a + 2, k + 1), "s": 1}
                else:
                    vk = {"t": "slice", "a": 0, "b": k, "s": 2} if k >= 4 else {"t": "slice", "a": 1, "b": k, "s": 1}
                if len(h.shape) == 0:
                    key = vk
                else:
                    key = {"t": "tuple", "k": [{"t": "slice", "a": 0, "b": h.shape[0], "s": 1}, vk]}
                return {"op": "index", "new": self._new_id(world), "h": h.id, "key": key, "vertex_axis": True}
        h = self._pick(rng, world, lambda x: len(x.shape) >= 1)
        if h is None:
            return None
        return {"op": "index", "new": self._new_id(world), "h": h.id, "key": self._key_for(rng, h)}

    def _gen_setitem(self, rng, world):
        h = self._pick(rng, world, lambda x: len(x.shape) >= 1 and not x.cplx and not x.isint)
        if h is None:
            return None
        key = self._key_for(rng, h)
        sub = h.data[_key(key)]
        tshape = list(sub.shape[:-2])
        mates = [o for o in world.live() if o.kind == h.kind and list(o.data.shape) == list(sub.shape)
                 and not o.cplx]
        if mates and rng.random() < 0.5:
            return {"op": "setitem", "h": h.id, "key": key, "src": rng.choice(mates).id, "data": None}
        data = gen_data(rng, h.kind, h.n, h.k, tshape, world.cfg.get("wide"))
        return {"op": "setitem", "h": h.id, "key": key, "src": None, "data": data}

    def _gen_combine(self, rng, world):
        h = self._pick(rng, world)
        mates = [o for o in world.live() if o.kind == h.kind and o.data.shape[-2:] == h.data.shape[-2:]
                 and o.cplx == h.cplx]
        ids = [h.id, rng.choice(mates).id]
        if rng.random() < 0.3:
            ids.append(rng.choice(mates).id)
        tot = sum(int(np.prod(world.handles[i].shape, dtype=int)) for i in ids)
        if tot > 12:
            return None
        return {"op": "combine", "new": self._new_id(world), "hs": ids}

    def _gen_astype(self, rng, world):
        h = self._pick(rng, world)
        return {"op": "astype", "new": self._new_id(world), "h": h.id,
                "dtype": rng.choice(["float64", "float64", "complex128"])}

    def _gen_setter(self, rng, world):
        h = self._pick(rng, world, lambda x: not x.cplx)
        if h is None:
            return None
        shape = list(h.shape) if rng.random() < 0.6 else self._rand_shape(rng)
        data = gen_data(rng, h.kind, h.n, h.k, shape, world.cfg.get("wide"))
        which = "projective"
        if h.kind in ("HPoly", "HSeg") and rng.random() < 0.4:
            which = "klein"
        op = {"op": "setter", "h": h.id, "which": which, "data": data,
              "layout": rng.choice(["C", "F", "strided", "reversed"])}
        if which == "projective" and list(np.array(data).shape) == list(h.data.shape) and not h.isint \
                and rng.random() < 0.3:
            # read - edit in place - write back, through the getter that hands out the object's own array
            op["roundtrip"] = True
        return op

    QUERIES = {
        "PPoly": ["projective_coords", "affine_coords", "get_edges", "get_vertices", "in_standard_chart",
                  "str", "len"],
        "HPoly": ["coords_projective", "coords_klein", "coords_poincare", "coords_hyperboloid",
                  "coords_halfspace", "distance", "origin_to", "get_edges", "get_vertices",
                  "circle_parameters", "edges_circle_parameters", "str", "minkowski"],
        "HSeg": ["coords_projective", "coords_klein", "coords_poincare", "coords_hyperboloid",
                 "coords_halfspace", "distance", "ideal_endpoint_coords", "circle_parameters",
                 "circle_parameters_halfspace", "geodesic", "get_endpoints", "endpoint_coords",
                 "get_end_pair", "origin_to", "str", "minkowski"],
        "HTan": ["normalized", "origin_to", "isometry_to", "angle", "point_along", "point_vector",
                 "coords_projective", "coords_hyperboloid", "unit_tangent_towards", "str", "minkowski"],
    }

    def _gen_query(self, rng, world):
        h = self._pick(rng, world, lambda x: not x.cplx)
        if h is None:
            return None
        q = rng.choice(self.QUERIES[h.kind])
        op = {"op": "query", "h": h.id, "q": q, "other": None, "arg": rng.uniform(0.1, 1.5)}
        if q in ("distance", "isometry_to", "angle", "unit_tangent_towards"):
            mates = [o for o in world.live() if o.kind == h.kind and o.data.shape == h.data.shape
                     and not o.cplx]
            op["other"] = rng.choice(mates).id
        return op

    FNS = ["kleinian_to_poincare", "poincare_to_kleinian", "poincare_to_halfspace", "halfspace_to_poincare",
           "kleinian_coords", "hyperboloid_coords", "affine_coords", "projective_coords", "point_from_klein",
           "get_point"]

    def _gen_fn(self, rng, world):
        """a module-level coordinate function called directly on an array the caller owns"""
        n = world.cfg["n"]
        m = rng.randint(1, 4)
        pts = [klein_point(rng, n, 0.8) for _ in range(m)]
        return {"op": "fn", "fn": rng.choice(self.FNS), "pts": pts,
                "layout": rng.choice(["C", "F", "strided", "reversed"]), "twice": rng.random() < 0.5}

    def _gen_scribble(self, rng, world):
        if not world.buffers:
            return None
        bid = rng.choice(sorted(world.buffers))
        return {"op": "scribble", "b": bid, "factor": rng.choice([-3.0, 0.0, 2.5]), "shift": rng.uniform(-1, 1)}

    def _gen_reject(self, rng, world):
        h = self._pick(rng, world)
        return {"op": "x_reject", "h": h.id, "kind": rng.choice(["reshape_bad", "setitem_bad"])}

    def _gen_drop(self, rng, world):
        h = self._pick(rng, world)
        return {"op": "drop", "h": h.id}

    # ------------------------------------------------------------------ interpreter
    def apply(self, world, op):
        world.steps_done += 1
        k = op["op"]
        fn = getattr(self, "_do_" + k, None)
        if fn is None:
            from .core import HarnessError
            raise HarnessError("engine %s has no interpreter for operation %r" % (NAME, k))
        ids = [op[x] for x in ("h",) if x in op] + list(op.get("hs", [])) + \
              ([op["src"]] if op.get("src") else []) + ([op["other"]] if op.get("other") else [])
        if any(i not in world.handles for i in ids):
            world.last_relation = "skip"
            return "skipped:no-handle", []
        self._relation(world, op, ids)
        vs = []
        outcome = fn(world, op, vs)
        if outcome.startswith("skipped"):
            return outcome, []
        touched = [x for x in [op.get("new")] + ids if x in world.handles]
        self._check_all(world, touched, vs)
        if touched:
            world.last_touched = touched[0]
        return outcome, vs

    def _relation(self, world, op, ids):
        k = op["op"]
        rel = "new"
        kind = op.get("kind", "")
        if ids:
            h = world.handles[ids[0]]
            kind = h.kind
            lt = world.last_touched
            if lt not in world.handles:
                rel = "first"
            elif lt == h.id:
                rel = "same"
            elif world.handles[lt].family == h.family:
                rel = "family"
            else:
                rel = "unrelated"
            fam = [o for o in world.live() if o.id != h.id and o.family == h.family]
            if fam and k not in ("drop",):
                world.nontrivial = True
                world.stats["probe.op_with_family_member_alive"] += 1
        world.last_relation = "%s:%s:%s" % (k if k != "query" else "query." + op["q"], kind, rel)

    # ---- buffers
    def _buffer(self, world, bid, data, layout, dtype=np.float64, affine=False):
        base = np.array(data, dtype=dtype)
        if layout == "F":
            arr = np.asfortranarray(base)
        elif layout == "strided":
            big = np.zeros(base.shape[:-1] + (base.shape[-1] * 2,), dtype=dtype)
            big[..., ::2] = base
            big[..., 1::2] = 7
            arr = big[..., ::2]
        elif layout == "reversed" and base.ndim >= 1:
            arr = base[..., ::-1].copy()[..., ::-1]
        else:
            arr = base
        world.buffers[bid] = (arr, base.copy(), layout + ("/affine" if affine else ""))
        world.stats["buffer." + layout] += 1
        return arr

    def _register(self, world, hid, real, kind, n, data, reach, parent=None, family=None, cplx=False):
        if family is None:
            family = hid
        h = Handle(hid, real, kind, n, np.array(data), reach, parent, family, cplx)
        world.handles[hid] = h
        return h

    def _fail(self, vs, inv, detail):
        vs.append(viol("C11", inv, detail))

    def _do_drop(self, world, op, vs):
        world.handles.pop(op["h"], None)
        return "ok"

    def _do_mk(self, world, op, vs):
        kind, n = op["kind"], int(op["n"])
        cls = self.classes[kind]
        isint = bool(op.get("int"))
        arr = self._buffer(world, "b:" + op["new"], op["data"], op["layout"], np.int64 if isint else np.float64)
        via = op.get("via", "array")
        if isint:
            world.stats["probe.integer_dtype_object"] += 1
            if via == "klein":
                via = "array"
        try:
            if via == "klein" and kind != "PPoly" and kind != "HTan":
                # Klein coordinates of the same points (a second caller buffer)
                kl = arr[..., 1:] / arr[..., :1]
                klb = self._buffer(world, "k:" + op["new"], kl.tolist(), op["layout"], affine=True)
                pts = self.hyperbolic.Point(klb, model="klein")
                real = cls(pts)
            elif via == "two" and kind in ("HSeg", "HTan"):
                real = cls(arr[..., 0, :], arr[..., 1, :])
            else:
                real = cls(arr)
        except Exception as e:
            self._fail(vs, "mk.raised", "constructing %s from a valid array raised %r" % (kind, e))
            return "raised:" + type(e).__name__
        h = self._register(world, op["new"], real, kind, n,
                           np.array(world.buffers["b:" + op["new"]][1], dtype=np.float64),
                           reach=(2.0 if isint else 1.2) if kind != "PPoly" else 0.0)
        h.isint = isint
        return "ok"

    def _do_copy(self, world, op, vs):
        h = world.handles[op["h"]]
        kind = h.kind
        if op.get("as") == "PPoly" and h.kind == "HPoly":
            kind = "PPoly"
            world.stats["probe.projective_polygon_from_hyperbolic"] += 1
        try:
            real = self.classes[kind](h.real)
        except Exception as e:
            self._fail(vs, "copy.raised", "copy-constructing %s raised %r" % (h.kind, e))
            return "raised:" + type(e).__name__
        nh = self._register(world, op["new"], real, kind, h.n, h.data.copy(), h.reach, h.id, h.family, h.cplx)
        nh.isint = h.isint
        return "ok"

    def _do_stack(self, world, op, vs):
        hs = [world.handles[i] for i in op["hs"]]
        h = hs[0]
        if any(o.kind != h.kind or o.data.shape != h.data.shape or o.cplx != h.cplx for o in hs):
            return "skipped:shape"
        try:
            real = self.classes[h.kind]([o.real for o in hs])
        except Exception as e:
            self._fail(vs, "stack.raised", "stacking %d %s objects of equal shape raised %r" % (len(hs), h.kind, e))
            return "raised:" + type(e).__name__
        nh = self._register(world, op["new"], real, h.kind, h.n, np.stack([o.data for o in hs]),
                            max(o.reach for o in hs), h.id, h.family, h.cplx)
        nh.isint = all(o.isint for o in hs)
        if any(o.isint for o in hs) and not nh.isint:
            world.stats["probe.stack_int_with_float"] += 1
        return "ok"

    def _do_apply(self, world, op, vs):
        h = world.handles[op["h"]]
        M = np.array(op["matrix"], dtype=np.float64)
        if M.shape != (h.n + 1, h.n + 1):
            return "skipped:dim"
        if h.kind != "PPoly" and h.reach + float(op["rapidity"]) > 6.0:
            return "skipped:reach"
        col = bool(op.get("col"))
        try:
            if h.kind == "PPoly":
                T = self.projective.Transformation(M.copy(), column_vectors=col)
            else:
                T = self.hyperbolic.Isometry(M.copy(), column_vectors=col)
            real = (T @ h.real) if op.get("how") == "matmul" else T.apply(h.real)
        except Exception as e:
            self._fail(vs, "apply.raised", "applying a single transformation to %s raised %r" % (h.kind, e))
            return "raised:" + type(e).__name__
        eff = M.T if col else M
        self._register(world, op["new"], real, h.kind, h.n, h.data @ eff,
                       h.reach + float(op["rapidity"]), h.id, h.family, h.cplx)
        return "ok"

    def _do_reshape(self, world, op, vs):
        h = world.handles[op["h"]]
        shape = tuple(op["shape"])
        if int(np.prod(shape, dtype=int)) != int(np.prod(h.shape, dtype=int)) or not h.shape:
            return "skipped:shape"
        try:
            real = h.real.reshape(shape)
        except Exception as e:
            self._fail(vs, "reshape.raised", "reshape%r of %s with shape %r raised %r" % (shape, h.kind, h.shape, e))
            return "raised:" + type(e).__name__
        nh = self._register(world, op["new"], real, h.kind, h.n, h.data.reshape(shape + h.data.shape[-2:]),
                            h.reach, h.id, h.family, h.cplx)
        nh.isint = h.isint
        return "ok"

    def _do_flatten(self, world, op, vs):
        h = world.handles[op["h"]]
        try:
            real = h.real.flatten_to_unit()
        except Exception as e:
            self._fail(vs, "flatten.raised", "flatten_to_unit of %s raised %r" % (h.kind, e))
            return "raised:" + type(e).__name__
        nh = self._register(world, op["new"], real, h.kind, h.n, h.data.reshape((-1,) + h.data.shape[-2:]),
                            h.reach, h.id, h.family, h.cplx)
        nh.isint = h.isint
        return "ok"

    def _do_index(self, world, op, vs):
        h = world.handles[op["h"]]
        if op.get("vertex_axis"):
            if h.kind not in ("PPoly", "HPoly") or len(h.shape) > 1:
                return "skipped:key"
            try:
                sub = h.data[_key(op["key"])]
            except Exception:
                return "skipped:key"
            if sub.ndim != h.data.ndim or sub.shape[-2] < 2 or sub.shape[-1] != h.data.shape[-1] or sub.size == 0:
                return "skipped:key"
            world.stats["probe.index_into_vertex_axis"] += 1
        elif not h.shape or not _key_ok(op["key"], h.shape[0], h.shape):
            return "skipped:key"
        key = _key(op["key"])
        sub = h.data[key]
        if sub.size == 0:
            return "skipped:empty"
        try:
            real = h.real[key]
        except Exception as e:
            self._fail(vs, "index.raised", "indexing %s of shape %r with %r raised %r" % (h.kind, h.shape, op["key"], e))
            return "raised:" + type(e).__name__
        nh = self._register(world, op["new"], real, h.kind, h.n, sub.copy(), h.reach, h.id, h.family, h.cplx)
        nh.isint = h.isint
        return "ok"

    def _do_setitem(self, world, op, vs):
        h = world.handles[op["h"]]
        if not h.shape or not _key_ok(op["key"], h.shape[0], h.shape) or h.cplx or h.isint:
            return "skipped:key"        # (assigning float coordinates into an integer array truncates: C12's business)
        key = _key(op["key"])
        sub = h.data[key]
        if op.get("src"):
            src = world.handles[op["src"]]
            if src.kind != h.kind or src.data.shape != sub.shape or src.cplx:
                return "skipped:shape"
            value, vdata, reach = src.real, src.data, src.reach
        else:
            vdata = np.array(op["data"], dtype=np.float64)
            if vdata.shape != sub.shape:
                return "skipped:shape"
            varr = self._buffer(world, "s:%d" % world.steps_done, op["data"], "C")
            try:
                value = self.classes[h.kind](varr)
            except Exception as e:
                self._fail(vs, "mk.raised", "constructing %s from a valid array raised %r" % (h.kind, e))
                return "raised:" + type(e).__name__
            reach = 1.2
        try:
            h.real[key] = value
        except Exception as e:
            self._fail(vs, "setitem.raised", "%s[%r] = value of matching shape raised %r" % (h.kind, op["key"], e))
            world.handles.pop(h.id, None)
            return "raised:" + type(e).__name__
        h.data[key] = vdata
        h.reach = max(h.reach, reach)
        world.stats["probe.setitem.rank%d" % len(h.shape)] += 1
        return "ok"

    def _do_combine(self, world, op, vs):
        hs = [world.handles[i] for i in op["hs"]]
        h = hs[0]
        if any(o.kind != h.kind or o.data.shape[-2:] != h.data.shape[-2:] or o.cplx != h.cplx for o in hs):
            return "skipped:shape"
        try:
            real = self.classes[h.kind].combine([o.real for o in hs])
        except Exception as e:
            self._fail(vs, "combine.raised", "combine of %d %s objects raised %r" % (len(hs), h.kind, e))
            return "raised:" + type(e).__name__
        if real is None:
            self._fail(vs, "combine.none", "combine returned None")
            return "wrong"
        data = np.concatenate([o.data.reshape((-1,) + o.data.shape[-2:]) for o in hs], axis=0)
        nh = self._register(world, op["new"], real, h.kind, h.n, data, max(o.reach for o in hs),
                            h.id, h.family, h.cplx)
        nh.isint = all(o.isint for o in hs)
        return "ok"

    def _do_astype(self, world, op, vs):
        h = world.handles[op["h"]]
        dt = op["dtype"]
        try:
            real = h.real.astype(dt)
        except Exception as e:
            self._fail(vs, "astype.raised", "astype(%s) of %s raised %r" % (dt, h.kind, e))
            return "raised:" + type(e).__name__
        cplx = dt == "complex128"
        self._register(world, op["new"], real, h.kind, h.n,
                       h.data.astype(np.complex128) if cplx else h.data.copy(),
                       h.reach, h.id, h.family, cplx)
        return "ok"

    def _do_setter(self, world, op, vs):
        h = world.handles[op["h"]]
        if h.cplx:
            return "skipped:complex"
        data = np.array(op["data"], dtype=np.float64)
        if data.ndim < 2 or data.shape[-2:] != h.data.shape[-2:]:
            return "skipped:shape"
        try:
            if op["which"] == "klein" and h.kind in ("HPoly", "HSeg"):
                kl = data[..., 1:] / data[..., :1]
                arr = self._buffer(world, "t:%d" % world.steps_done, kl.tolist(), op["layout"], affine=True)
                h.real.coords("klein", arr)
            elif op.get("roundtrip") and data.shape == h.data.shape and not h.isint:
                arr = h.real.projective_coords()
                arr[...] = data
                h.real.projective_coords(arr)
                world.stats["probe.setter_roundtrip_through_own_array"] += 1
            else:
                arr = self._buffer(world, "t:%d" % world.steps_done, op["data"], op["layout"])
                h.real.projective_coords(arr)
        except Exception as e:
            self._fail(vs, "setter.raised", "setting %s coordinates of %s raised %r" % (op["which"], h.kind, e))
            world.handles.pop(h.id, None)
            return "raised:" + type(e).__name__
        h.data = data
        h.reach = 1.2 if h.kind != "PPoly" else 0.0
        h.isint = False
        return "ok"

    def _run_query(self, a, q, o, arg):
        """perform query q on object a (o: the other operand's real object, or None); returns the
        value(s) whose history-independence is checked, as a list of (kind, ndarray), or None"""
        hyp = self.hyperbolic
        if q == "projective_coords":
            return [("proj", np.array(a.projective_coords()))]
        if q == "affine_coords":
            a.affine_coords(chart_index=0)
            return None
        if q.startswith("coords_"):
            m = q[len("coords_"):]
            v = np.array(a.coords(m))
            return [("proj" if m in ("projective", "hyperboloid") else "num", v)]
        if q == "get_edges":
            return [("proj", np.array(a.get_edges().proj_data))]
        if q == "get_vertices":
            return [("proj", np.array(a.get_vertices().proj_data))]
        if q == "in_standard_chart":
            a.in_standard_chart()
            return None
        if q == "str":
            str(a), repr(a)
            return None
        if q == "len":
            len(a)
            return None
        if q == "distance":
            a.distance(o)
            return None
        if q == "origin_to":
            T = a.origin_to()
            M = np.array(T.proj_data)
            k = 2 if isinstance(a, hyp.TangentVector) else 1
            # only the images of the first k basis vectors are determined (the rest is a completion)
            return [("proj", M[..., :k, :])]
        if q == "circle_parameters":
            a.circle_parameters()
            return None
        if q == "circle_parameters_halfspace":
            a.circle_parameters(model=hyp.Model.HALFSPACE)
            return None
        if q == "edges_circle_parameters":
            a.get_edges().circle_parameters()
            return None
        if q == "ideal_endpoint_coords":
            return [("num", np.array(a.ideal_endpoint_coords()))]
        if q == "geodesic":
            return [("proj", np.array(a.geodesic().proj_data))]
        if q == "get_endpoints":
            return [("proj", np.array(a.get_endpoints().proj_data))]
        if q == "endpoint_coords":
            return [("num", np.array(a.endpoint_coords()))]
        if q == "get_end_pair":
            p1, p2 = a.get_end_pair(as_points=True)
            p1.distance(p2)
            return None
        if q == "normalized":
            t = a.normalized()
            return [("proj", np.array(t.proj_data)[..., 0, :]), ("pos", np.array(t.aux_data)[..., 1, :])]
        if q == "isometry_to":
            a.isometry_to(o)
            return None
        if q == "angle":
            a.angle(o)
            return None
        if q == "point_along":
            return [("proj", np.array(a.point_along(float(arg)).proj_data))]
        if q == "point_vector":
            hyp.Point(a.point).hyperboloid_coords()
            return [("pos", np.array(a.vector))]
        if q == "unit_tangent_towards":
            hyp.Point(a.point).unit_tangent_towards(hyp.Point(o.point))
            return None
        if q == "minkowski":
            return [("form", a.minkowski)]
        raise KeyError(q)

    def _do_query(self, world, op, vs):
        h = world.handles[op["h"]]
        o = world.handles[op["other"]].real if op.get("other") else None
        a = h.real
        q = op["q"]
        world.stats["query." + q] += 1
        try:
            got = self._run_query(a, q, o, op.get("arg", 0.5))
        except KeyError:
            return "skipped:unknown-query"
        except Exception as e:       # a query may raise; C11 only constrains its side effects
            world.stats["query_raised." + q] += 1
            return "qraised:" + type(e).__name__
        if got is None:
            return "ok"
        if q == "minkowski":
            if world.cfg.get("scribble"):
                # the caller overwrites the form it was handed; nothing later may depend on that
                try:
                    got[0][1][...] = 3.0
                    world.stats["probe.caller_scribbled_on_result"] += 1
                except Exception:
                    pass
            return "ok"
        # history independence of the answer: the same query on an object built afresh from the
        # same primary data must give the same answer (what a stale memo of a query breaks)
        try:
            fresh = self.classes[h.kind](np.array(a.proj_data))
            want = self._run_query(fresh, q, o, op.get("arg", 0.5))
        except Exception:
            return "ok"
        d = h.n + 1
        for (kind, g), (_, w) in zip(got, want):
            if g.shape != w.shape:
                vs.append(viol("C11", "Q.fresh", "%s() on handle %s returns shape %r, on a fresh object built "
                               "from the same primary data %r" % (q, h.id, g.shape, w.shape)))
                return "wrong"
            if kind == "num":
                ok = np.allclose(g, w, rtol=1e-6, atol=1e-8, equal_nan=True)
            else:
                ok = rows_proj_equal(g.reshape(-1, g.shape[-1]), w.reshape(-1, w.shape[-1]),
                                     positive=(kind == "pos")) < 0
            if not ok:
                vs.append(viol("C11", "Q.fresh", "%s() on handle %s [%s] differs from the same query on an object "
                               "built afresh from the same primary data: %s vs %s" % (
                                   q, h.id, h.kind, np.round(g.reshape(-1, g.shape[-1])[:3], 6).tolist(),
                                   np.round(w.reshape(-1, w.shape[-1])[:3], 6).tolist())))
                return "wrong"
        world.stats["probe.query_compared_with_fresh_object"] += 1
        return "ok"

    def _do_fn(self, world, op, vs):
        hyp, proj = self.hyperbolic, self.projective
        fn = op["fn"]
        pts = np.array(op["pts"], dtype=np.float64)
        bid = "f:%d" % world.steps_done
        homog = fn in ("kleinian_coords", "hyperboloid_coords", "affine_coords")
        if homog:
            data = np.concatenate([np.ones(pts.shape[:-1] + (1,)), pts], axis=-1) * 1.5
            buf = self._buffer(world, bid, data.tolist(), op["layout"])
        else:
            buf = self._buffer(world, bid, pts.tolist(), op["layout"], affine=True)

        def call():
            if fn == "kleinian_to_poincare":
                return hyp.kleinian_to_poincare(buf)
            if fn == "poincare_to_kleinian":
                return hyp.poincare_to_kleinian(buf)
            if fn == "poincare_to_halfspace":
                return hyp.poincare_to_halfspace(buf)
            if fn == "halfspace_to_poincare":
                return hyp.halfspace_to_poincare(buf)
            if fn == "kleinian_coords":
                return hyp.kleinian_coords(buf)
            if fn == "hyperboloid_coords":
                return np.array(hyp.hyperboloid_coords(buf))
            if fn == "affine_coords":
                return proj.affine_coords(buf, chart_index=0)
            if fn == "projective_coords":
                return proj.projective_coords(buf)
            if fn == "point_from_klein":
                return np.array(hyp.Point(buf, model="klein").proj_data)
            return np.array(hyp.get_point(buf, model="klein").proj_data)
        world.stats["query.fn." + fn] += 1
        try:
            first = np.array(call())
            if op.get("twice"):
                second = np.array(call())
                if fn == "hyperboloid_coords":
                    ok = rows_proj_equal(first.reshape(-1, first.shape[-1]), second.reshape(-1, second.shape[-1])) < 0
                else:
                    ok = first.shape == second.shape and np.allclose(first, second, rtol=1e-9, atol=1e-12, equal_nan=True)
                if not ok:
                    vs.append(viol("C11", "Q.twice", "%s(buffer) called twice on the caller's array gives two "
                                   "different answers: %s then %s" % (fn, np.round(first, 6).tolist()[:3],
                                                                      np.round(second, 6).tolist()[:3])))
                    return "wrong"
        except Exception as e:
            world.stats["query_raised.fn." + fn] += 1
            return "qraised:" + type(e).__name__
        return "ok"

    def _do_scribble(self, world, op, vs):
        """the caller overwrites, in place, an array it passed to the library earlier; every object
        built from it must be unaffected"""
        bid = op["b"]
        if bid not in world.buffers:
            return "skipped:no-buffer"
        arr, snap, layout = world.buffers[bid]
        if arr.dtype.kind in "iu":
            arr *= int(op["factor"])
            arr += 1 + int(op["shift"] * 3)
        else:
            arr *= float(op["factor"])
            arr += float(op["shift"])
        world.buffers[bid] = (arr, np.array(arr), layout)
        world.stats["probe.caller_scribbled_on_its_buffer"] += 1
        world.nontrivial = True
        return "ok"

    def _do_x_reject(self, world, op, vs):
        h = world.handles[op["h"]]
        try:
            if op["kind"] == "reshape_bad":
                h.real.reshape((int(np.prod(h.shape, dtype=int)) + 1,))
            else:
                h.real[0] = self.classes[h.kind](np.zeros((7, 7, 2, h.n + 1)))
            out = "rejected:noraise"
        except Exception as e:
            out = "rejected:" + type(e).__name__
        world.handles.pop(h.id, None)
        world.stats["fault.rejected_op"] += 1
        return out

    # ------------------------------------------------------------------ invariants
    def _check_all(self, world, touched, vs):
        for h in world.live():
            bad = self._check_handle(h)
            if bad:
                inv, detail = bad
                if h.id not in touched:
                    inv = "D.other." + inv
                    detail += " (handle %s was not operated on; step touched %s)" % (h.id, touched)
                vs.append(viol("C11", inv, "handle %s [%s, shape %r]: %s" % (h.id, h.kind, tuple(h.shape), detail)))
                return
        for bid, (arr, snap, layout) in world.buffers.items():
            if arr.shape != snap.shape:
                vs.append(viol("C11", "C.buffer", "caller buffer %s changed shape" % bid))
                return
            if layout.endswith("/affine"):
                # affine (Klein, Poincare, half-space) coordinates: any change moves the points
                i = -1 if np.array_equal(arr, snap) else 0
            else:
                i = rows_proj_equal(arr.reshape(-1, arr.shape[-1]), snap.reshape(-1, snap.shape[-1]))
            if i >= 0:
                vs.append(viol("C11", "C.buffer", "caller buffer %s (%s layout) no longer represents the same "
                               "points: row %d is %r, was %r" % (
                                   bid, layout, i, arr.reshape(-1, arr.shape[-1])[i].tolist(),
                                   snap.reshape(-1, snap.shape[-1])[i].tolist())))
                return
            if not np.array_equal(arr, snap):
                world.stats["probe.caller_buffer_rescaled"] += 1

    def _check_handle(self, h):
        a = h.real
        cls = self.classes[h.kind]
        d = h.n + 1
        try:
            if type(a) is not cls:
                return ("B.type", "object is a %s, expected %s" % (type(a).__name__, cls.__name__))
            P = np.asarray(a.proj_data)
            if P.shape != h.data.shape:
                return ("B.shape", "proj_data has shape %r, model %r" % (P.shape, h.data.shape))
            if tuple(a.shape) != tuple(h.shape):
                return ("B.shape", "obj.shape is %r, model %r" % (tuple(a.shape), tuple(h.shape)))
            if h.kind == "HTan":
                i = rows_proj_equal(P[..., 0, :].reshape(-1, d), h.data[..., 0, :].reshape(-1, d))
                if i < 0:
                    i = rows_proj_equal(P[..., 1, :].reshape(-1, d), h.data[..., 1, :].reshape(-1, d), positive=True)
            else:
                i = rows_proj_equal(P.reshape(-1, d), h.data.reshape(-1, d))
            if i >= 0:
                return ("B.primary", "primary data does not represent the model's points (flat row %d): "
                        "got %s want %s" % (i, _row(P, i, h.kind), _row(h.data, i, h.kind)))
            A = a.aux_data
            if A is None:
                return ("A.aux", "aux_data is None")
            A = np.asarray(A)
            fresh = cls(P.copy())
            F = np.asarray(fresh.aux_data)
            if A.shape != F.shape:
                return ("A.aux", "stored derived data has shape %r, recomputed %r" % (A.shape, F.shape))
            if h.kind in ("PPoly", "HPoly"):
                i = rows_proj_equal(A.reshape(-1, d), F.reshape(-1, d))
            elif h.kind == "HSeg":
                # row by row, in order: a *consistent* change of the order in which the two ideal
                # endpoints are stored changes stored and recomputed data alike
                i = rows_proj_equal(A.reshape(-1, d), F.reshape(-1, d))
            else:
                i = rows_proj_equal(A[..., 0, :].reshape(-1, d), F[..., 0, :].reshape(-1, d))
                if i < 0:
                    i = rows_proj_equal(A[..., 1, :].reshape(-1, d), F[..., 1, :].reshape(-1, d), positive=True)
            if i >= 0:
                return ("A.aux", "stored derived data differs from what is recomputed from the primary data "
                        "(flat index %d): stored %s recomputed %s" % (
                            i, np.round(A.reshape(-1, d)[:4], 6).tolist(), np.round(F.reshape(-1, d)[:4], 6).tolist()))
            # the same derived data, derived independently from the model's primary data
            i = self._aux_vs_model(h, A)
            if i >= 0:
                return ("A.model", "stored derived data is not the %s of the represented object (flat index %d): "
                        "stored %s" % ({"PPoly": "edges", "HPoly": "edges", "HSeg": "ideal endpoints",
                                        "HTan": "projected vector"}[h.kind], i,
                                       np.round(A.reshape(-1, d)[max(0, i - 1):i + 3], 9).tolist()))
        except Exception as e:
            return ("A.raised", "reading the object raised %r" % (e,))
        return None

    @staticmethod
    def _mink(u, v):
        return -u[..., 0] * v[..., 0] + np.sum(u[..., 1:] * v[..., 1:], axis=-1)

    def _aux_vs_model(self, h, A):
        d = h.n + 1
        D = h.data
        if h.kind in ("PPoly", "HPoly"):
            want = np.stack([D, np.roll(D, -1, axis=-2)], axis=-2)
            if want.shape != A.shape:
                return 0
            return rows_proj_equal(A.reshape(-1, d), want.reshape(-1, d))
        if h.kind == "HTan":
            p, v = D[..., 0, :], D[..., 1, :]
            t = v - (self._mink(v, p) / self._mink(p, p))[..., None] * p
            i = rows_proj_equal(A[..., 0, :].reshape(-1, d), p.reshape(-1, d))
            if i < 0:
                i = rows_proj_equal(A[..., 1, :].reshape(-1, d), t.reshape(-1, d), positive=True)
            return i
        if h.cplx:
            return -1
        p1, p2 = D[..., 0, :].real, D[..., 1, :].real
        u = p1 / np.sqrt(np.abs(self._mink(p1, p1)))[..., None]
        w = p2 / np.sqrt(np.abs(self._mink(p2, p2)))[..., None]
        c = -self._mink(u, w)
        w = np.where((c < 0)[..., None], -w, w)
        c = np.abs(c)
        r = np.sqrt(np.maximum(c * c - 1.0, 0.0))
        n1 = (-c + r)[..., None] * u + w
        n2 = (-c - r)[..., None] * u + w
        A2 = A.reshape(-1, 2, d)
        N1, N2 = n1.reshape(-1, d), n2.reshape(-1, d)
        for k in range(A2.shape[0]):
            a = np.stack([N1[k], N2[k]])
            if rows_proj_equal(A2[k], a) >= 0 and rows_proj_equal(A2[k], a[::-1]) >= 0:
                return k
        return -1

    # ------------------------------------------------------------------ shrinking
    def simplify_op(self, op):
        out = []
        if op["op"] == "mk" and op.get("layout") != "C":
            o = dict(op)
            o["layout"] = "C"
            out.append(o)
        if op["op"] == "mk" and op.get("via") != "array":
            o = dict(op)
            o["via"] = "array"
            out.append(o)
        return out


def _key(k):
    if k["t"] == "int":
        return k["i"]
    if k["t"] == "slice":
        return slice(k["a"], k["b"], k["s"])
    if k["t"] == "ellipsis":
        return Ellipsis
    if k["t"] == "tuple":
        return tuple(_key(x) for x in k["k"])
    return np.array(k["m"], dtype=bool)


def _key_ok(k, m, shape=None):
    if k["t"] == "int":
        return -m <= k["i"] < m
    if k["t"] == "slice":
        return 0 <= k["a"] < k["b"] <= m
    if k["t"] == "tuple":
        if shape is None or len(shape) < 2 or len(k["k"]) != 2:
            return False
        a, b = k["k"]
        if a["t"] == "ellipsis":
            # (Ellipsis, j) would index the *unit* axes, not the composite ones
            return False
        return _key_ok(a, shape[0]) and _key_ok(b, shape[1])
    if k["t"] == "ellipsis":
        return False
    return len(k["m"]) == m and any(k["m"])


def _row(X, i, kind):
    d = X.shape[-1]
    if kind == "HTan":
        return np.round(X.reshape(-1, 2, d)[min(i, X.reshape(-1, 2, d).shape[0] - 1)], 6).tolist()
    return np.round(X.reshape(-1, d)[i], 6).tolist()


def factory():
    return Engine()
