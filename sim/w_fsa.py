"""Engine W-FSA: automata under operation histories and a faulty simulated disk.

Serves C09 (view coherence, loader exactness, disk faults) and C10 (language
semantics of the operations on history-produced automata, independence of
derived automata).  Real code: all of geometry_tools.automata.{fsa,gap_parse,
kbmag_utils} and CPython's io stack.  Stub: the raw file layer.  Reference model:
(V, E, S) with V a set of vertices, E a set of (tail, head, label), S a list.
"""
import copy
import io
import os
from collections import Counter

from . import simfs
from .core import viol, h64, canon

NAME = "W-FSA"

RULE = ("One evaluation = one simulated run: a seeded history of 6-60 operations issued by 2-4 logical "
        "callers on up to 6 automata: construction by six routes (label->target dict, target->labels dict, "
        "kbmag record written to and read from the simulated disk, built-in file, free-group constructor, "
        "deepcopy), the caller editing its own dicts afterwards, all mutators incl. in-place start-list edits, "
        "non-in-place derivations, queries, rejected operations, and disk faults inside loads (short reads, "
        "open/read errors, truncation, bit flips, files overwritten and re-loaded, fault-position sweeps); every "
        "invariant is checked on every live handle after every step.  A run is non-trivial if at least one "
        "mutating operation (or a caller's edit of a dict) happened while a related handle (parent, child, same "
        "source dict, same file, sibling) was alive and was then re-checked.  Distinct = distinct hash of the "
        "sequence of (operation kind, relation of the touched handle to the previously touched one).")

COMPONENTS = {"real": ["geometry_tools.automata.fsa (FSA, load_builtin, load_kbmag_file, free_automaton, list_builtins)",
                       "geometry_tools.automata.gap_parse", "geometry_tools.automata.kbmag_utils.build_dict",
                       "CPython io stack (TextIOWrapper over BufferedReader)", "copy.deepcopy"],
              "stub": ["raw file layer under builtins.open for paths under the virtual root and under "
                       "automata/builtin/ (SimRaw: scheduled short reads and faults); every virtual file also "
                       "exists on a real scratch directory"]}
ASSUMPTIONS = ["only deterministic automata, label lists without internal repeats, total injective rename maps and "
               "roots/starts inside the vertex set are generated (what the class documents)",
               "label alphabets are uniquely decodable (single characters or uniform 2-character labels)",
               "a faulted load may raise anything or return None; it must not return a different automaton "
               "(open/read errors) or an incoherent one (torn/corrupted bytes); a clean reload afterwards must be exact",
               "the public start_vertices list is edited in place only on handles that own their list object on "
               "the current tree (constructed, loaded, deep-copied)",
               "rejected operations have no oracle; the handle they were applied to is retired"]

MUTATE = ("add_vertices", "add_edge", "add_edges_list", "delete_vertex", "delete_vertices",
          "recurrent_in", "rename_in", "set_starts", "starts_inplace")
# handles whose start_vertices list is their own object on the current tree (constructed with a list the
# simulator made for them, parsed from a file, or deep-copied); rename/multiple share the parent's list and
# remove_long_paths returns the constructor's shared default list, so those are never edited in place
OWN_START_LIST = ("ctor_label", "ctor_out", "ctor_free", "ctor_empty", "load_kbmag", "load_builtin", "d_copy",
                  "d_recurrent")
SHARES_START_LIST = ("d_rename", "d_multiple", "d_shortest")
DERIVE = ("d_rename", "d_recurrent", "d_copy", "d_shortest", "d_multiple")
CONSTRUCT = ("ctor_label", "ctor_out", "ctor_free", "ctor_empty", "load_kbmag", "load_builtin",
             "write_file", "caller_edits_dict")
QUERY = ("q_has_edge", "q_edge_label", "q_edge_labels", "q_neighbors", "q_edges_at",
         "q_vertices", "q_edges", "q_follow", "q_accepts", "q_prefix", "q_enum", "q_fixed",
         "q_str", "q_list_builtins")
NONINPLACE = ("d_rename", "d_recurrent", "d_shortest", "d_multiple")
VIEW_QUERIES = ("q_has_edge", "q_edge_label", "q_edge_labels", "q_neighbors", "q_edges_at",
                "q_vertices", "q_edges", "q_str", "q_list_builtins")

SINGLE = ["a", "b", "c", "A", "B"]
DOUBLE = ["ab", "ba", "cc", "aB", "Ab"]
HOSTILE_NAMES = ["r", "R", "rec", "x1", "s0", "gen", "t", "T", "inf", "nan", "INF", "e"]


MIXEDLEN = ["a", "bc", "ab", "c", "b"]     # not uniquely decodable: a.bc = ab.c
INTLABELS = [0, 1, 2, 3]                     # labels need not be strings for the views (0 is falsy)


def all_str(labs):
    return all(isinstance(l, str) for l in labs)


def uniform(labs):
    return all_str(labs) and len({len(l) for l in labs}) <= 1


def vkey(v):
    return (type(v).__name__, v)


def ekey(e):
    return (vkey(e[0]), vkey(e[1]), (type(e[2]).__name__, str(e[2])))


def tup(e):
    return (e[0], e[1], e[2])


class Handle:
    __slots__ = ("id", "real", "V", "E", "S", "origin", "parent", "group", "big", "exact_model",
                 "rebound_starts", "slist", "lenient")

    def __init__(self, hid, real, V, E, S, origin, parent=None, group=None):
        self.id = hid
        self.real = real
        self.V = set(V)
        self.E = set(E)
        self.S = list(S)
        self.origin = origin
        self.parent = parent
        self.group = group        # same-source / same-file group tag
        self.rebound_starts = False
        self.slist = hid          # identity token of its start_vertices list object
        self.lenient = False      # the caller asked for an edge to be listed twice (ignore_redundant=False)
        self.big = len(self.V) > 12 or len(self.E) > 40

    def adj(self):
        a = {v: [] for v in self.V}
        for (t, h, l) in self.E:
            a[t].append((l, h))
        for v in a:
            a[v].sort(key=lambda p: (str(p[0]), vkey(p[1])))
        return a

    def labels(self):
        return sorted({l for (_, _, l) in self.E}, key=lambda l: (type(l).__name__, l))

    def det_ok(self, t, l, h):
        for (t2, h2, l2) in self.E:
            if t2 == t and l2 == l and h2 != h:
                return False
        return True


class World:
    def __init__(self, cfg, prop):
        self.cfg = cfg
        self.prop = prop
        self.handles = {}
        self.dicts = {}          # caller-owned dicts: id -> (object, kind, snapshot-json)
        self.files = {}          # file name -> table
        self.stats = Counter()
        self.last_relation = ""
        self.nontrivial = False
        self.last_touched = None
        self.prev_touched = None
        self.next_id = 0
        self.steps_done = 0
        self.sweep = None

    def live(self):
        return list(self.handles.values())


class Engine:
    name = NAME

    def __init__(self):
        from geometry_tools.automata import fsa
        import geometry_tools
        self.fsa = fsa
        self.builtin_dir = os.path.join(os.path.dirname(geometry_tools.__file__),
                                        "automata", "builtin")
        simfs.DISK.install(self.builtin_dir)
        self.tables = simfs.builtin_tables(self.builtin_dir) if os.path.isdir(self.builtin_dir) else {}
        self.builtin_names = sorted(n for n, (t, _) in self.tables.items() if t is not None)
        from .core import library_guard
        self.guard = library_guard()

    # ------------------------------------------------------------------ config
    def gen_config(self, rng, prop, tier):
        c10 = (prop == "C10")
        cfg = {
            "engine": NAME,
            "steps": rng.choice([6, 10, 16, 25, 40, 60] if tier == "thorough" else [6, 10, 16, 25, 40]),
            "vkind": rng.choice(["int", "int", "int", "str", "str", "tuple"]),
            "nverts": rng.randint(2, 10 if tier == "thorough" else 8),
            "alpha": rng.choice(["single", "single", "single", "double", "mixedlen"]),
            "nlabels": rng.randint(1, 5),
            "max_handles": rng.randint(2, 6),
            "callers": rng.randint(2, 4),
            "L": rng.randint(1, 4) if c10 else rng.randint(0, 2),
            "i3": True if c10 else (rng.random() < 0.25),
            "faulty": (not c10) and rng.random() < 0.5,
            "fault_kinds": [],
            "fault_rate": rng.choice([0.2, 0.4, 0.7]),
            "builtin_rate": rng.choice([0.0, 0.1, 0.3]),
            "word_as": rng.choice(["str", "tuple"]),
            # how the views are read after every step: through the accessor methods (edges_in(v),
            # neighbors_in(v) for every vertex - which, on the current tree, lazily creates entries in the
            # incoming view) or through the out_dict / in_dict properties (which changes nothing)
            "i1_mode": rng.choice(["accessors", "properties"]),
        }
        if not c10 and not cfg["i3"] and rng.random() < 0.12:
            cfg["alpha"] = "int"        # the views do not care what a label is (C09 only: enumeration
            cfg["nlabels"] = min(cfg["nlabels"], 4)   # concatenates labels, so it needs strings)
        cfg["redundant_adds"] = c10 and rng.random() < 0.2
        if cfg["faulty"]:
            kinds = ["open_error", "read_error", "truncated", "bitflip"]
            k = rng.randint(1, 4)
            cfg["fault_kinds"] = sorted(rng.sample(kinds, k))
        # op-group weights, swarm style
        if c10:
            base = {"construct": 12, "mutate": 25, "derive": 30, "query": 28, "reject": 2, "io": 3}
        else:
            base = {"construct": 14, "mutate": 42, "derive": 10, "query": 18, "reject": 2, "io": 14}
        style = rng.choice(["flat", "mutate", "query", "derive", "io"])
        if not c10 and rng.random() < 0.08:
            style = "iosweep"       # one file, one fault kind, fault position swept over consecutive indices
            cfg["steps"] = min(cfg["steps"], 16)
            cfg["faulty"] = True
            cfg["fault_kinds"] = ["bitflip", "open_error", "read_error", "truncated"]
        elif style != "flat":
            base[style] = base[style] * 3
        cfg["weights"] = base
        cfg["style"] = style
        return cfg

    def new_world(self, cfg, prop):
        self._isolate()
        return World(cfg, prop)

    def close(self, world):
        world.handles.clear()
        simfs.DISK.reset()

    def _isolate(self):
        """Process-global state a run could have changed (Appendix B)."""
        fsa = self.fsa
        simfs.DISK.reset()
        self.guard.restore()

    # ------------------------------------------------------------------ helpers
    def universe(self, cfg):
        if cfg["vkind"] == "int":
            return list(range(cfg["nverts"]))
        if cfg["vkind"] == "tuple":
            # pair-named states, as in a product automaton
            return [(i, j) for i in range(4) for j in range(3)][:cfg["nverts"]]
        return ["p", "q", "s", "u", "v", "w", "x", "y", "z", "t"][:cfg["nverts"]]

    def alphabet(self, cfg):
        pool = {"single": SINGLE, "double": DOUBLE, "mixedlen": MIXEDLEN, "int": INTLABELS}[cfg["alpha"]]
        return pool[:cfg["nlabels"]]

    def state_hash(self, world):
        parts = []
        for h in world.handles.values():
            parts.append("%s|%s|%s|%s" % (h.id, sorted(map(repr, h.V)), sorted(map(repr, h.E)), h.S))
        return h64("#".join(parts))

    def op_property(self, world, op, prop):
        k = op["op"]
        if k in DERIVE or k in ("q_follow", "q_accepts", "q_prefix", "q_enum", "q_fixed"):
            return "C10"
        return "C09"

    # ------------------------------------------------------------------ generation
    def _gen_sweep(self, rng, world):
        cfg = world.cfg
        st = world.sweep
        if st is None:
            chunks = [rng.choice([1, 3, 16, 64, 500, 4096])]
            bufsize = rng.choice([1, 16, 128, 8192])
            if rng.random() < 0.6 and self.builtin_names:
                name = rng.choice(self.builtin_names)
                small = [x for x in self.builtin_names if self.tables[x][1] <= 2500]
                if self.tables[name][1] > 2500 and rng.random() < 0.8 and small:
                    name = rng.choice(small)
                size = self.tables[name][1]
                if size > 3000 and chunks[0] < 16:
                    chunks = [64]
                world.sweep = st = {"target": ["builtin", name], "size": size}
            else:
                if not world.files:
                    t_ = self._gen_table(rng, cfg)
                    l_ = self._gen_layout(rng)
                    if any(x[:1].isdigit() for x in t_["names"]):
                        l_["quote_names"] = True
                    return {"op": "write_file", "file": "sweep.wa", "table": t_, "layout": l_, "caller": 0}
                fn = sorted(world.files)[0]
                world.sweep = st = {"target": ["file", fn], "size": world.files[fn][1]}
            st["kind"] = rng.choice(["read_error", "read_error", "truncated", "bitflip"])
            st["chunks"], st["bufsize"] = chunks, bufsize
            n = self._count_reads(st["size"], chunks, bufsize) if st["kind"] == "read_error" else st["size"]
            st["n"] = max(1, n)
            st["pos"] = rng.randrange(st["n"])
            st["bit"] = rng.randrange(7)
        plan = {"kind": st["kind"], "chunks": st["chunks"], "bufsize": st["bufsize"],
                "at": st["pos"] % st["n"], "bit": st["bit"]}
        st["pos"] += 1
        world.stats["probe.sweep_step"] += 1
        if st["target"][0] == "builtin":
            op = {"op": "load_builtin", "new": self._new_id(world), "name": st["target"][1], "plan": plan}
        else:
            op = {"op": "load_kbmag", "new": self._new_id(world), "file": st["target"][1], "plan": plan}
        op["caller"] = 0
        # keep the world small: the previous sweep handle is dropped by the interpreter
        op["drop_previous"] = True
        return op

    def gen_op(self, rng, world):
        cfg = world.cfg
        if cfg.get("style") == "iosweep":
            return self._gen_sweep(rng, world)
        live = world.live()
        w = dict(cfg["weights"])
        if not live:
            group = "construct" if rng.random() > 0.25 else "io"
        else:
            if len(live) >= cfg["max_handles"]:
                w["construct"] = 1
                w["derive"] = max(1, w["derive"] // 4)
                w["io"] = max(1, w["io"] // 4)
                if rng.random() < 0.25:
                    h = rng.choice(live)
                    return {"op": "drop", "h": h.id, "caller": rng.randrange(cfg["callers"])}
            groups = sorted(w)
            group = rng.choices(groups, [w[g] for g in groups])[0]
        gen = getattr(self, "_gen_" + group)
        for _ in range(6):
            op = gen(rng, world)
            if op is not None:
                op["caller"] = rng.randrange(cfg["callers"])
                return op
        op = self._gen_construct(rng, world)
        op["caller"] = rng.randrange(cfg["callers"])
        return op

    def _new_id(self, world):
        world.next_id += 1
        return "h%d" % world.next_id

    def _pick(self, rng, world, small=False):
        live = [h for h in world.live() if not (small and h.big)]
        if not live:
            return None
        # bias towards handles related to the one touched last
        lt = world.last_touched
        if lt is not None and lt in world.handles and rng.random() < 0.5:
            h0 = world.handles[lt]
            rel = [h for h in live if h.id == lt or h.parent == lt or h0.parent == h.id or
                   (h.group is not None and h.group == h0.group) or
                   (h.parent is not None and h.parent == h0.parent)]
            if rel:
                return rng.choice(rel)
        return rng.choice(live)

    def _rand_graph(self, rng, cfg):
        """A deterministic automaton over the run's universe as (V list, E list)."""
        U = self.universe(cfg)
        A = self.alphabet(cfg)
        nv = rng.randint(1, len(U))
        V = rng.sample(U, nv)
        dens = rng.choice([0.15, 0.35, 0.6, 0.9])
        E = []
        for t in V:
            for l in A:
                if rng.random() < dens:
                    E.append([t, rng.choice(V), l])
        return V, E

    def _gen_construct(self, rng, world):
        cfg = world.cfg
        r = rng.random()
        live = world.live()
        if r < 0.12:
            gens = sorted(rng.sample(["a", "b", "c"], rng.randint(1, 3)))
            if rng.random() < 0.2:
                # a redundant generating set: an inverse pair or a repeated name
                g = rng.choice(gens)
                gens = gens + [rng.choice([g, g.upper()])]
            return {"op": "ctor_free", "new": self._new_id(world), "gens": gens}
        if r < 0.16:
            U = self.universe(cfg)
            # an automaton built up from nothing: FSA() / FSA(start_vertices=[...])
            return {"op": "ctor_empty", "new": self._new_id(world),
                    "starts": None if rng.random() < 0.4 else [rng.choice(U)]}
        if r < 0.26 and live:
            h = self._pick(rng, world)
            return {"op": "d_copy", "new": self._new_id(world), "h": h.id}
        # reuse a caller-owned dict object for a second construction (same-source)
        if world.dicts and rng.random() < 0.3:
            did = rng.choice(sorted(world.dicts))
            kind = world.dicts[did][1]
            V = world.dicts[did][3]
            starts = [rng.choice(V)] if V else []
            return {"op": "ctor_label" if kind == "label" else "ctor_out",
                    "new": self._new_id(world), "d": did, "content": None, "starts": starts}
        if world.dicts and rng.random() < 0.15:
            # the caller goes on using (and editing) a dict it built an automaton from
            did = rng.choice(sorted(world.dicts))
            V = world.dicts[did][3]
            A = self.alphabet(cfg)
            if V:
                return {"op": "caller_edits_dict", "d": did, "v": rng.choice(V), "w": rng.choice(V),
                        "l": rng.choice(A), "how": rng.choice(["set", "set", "del", "append"])}
        V, E = self._rand_graph(rng, cfg)
        did = "d%d" % (len(world.dicts) + 1 + world.steps_done * 10)
        starts = [rng.choice(V)]
        if rng.random() < 0.15:
            starts = rng.sample(V, min(len(V), 2))
        if rng.random() < 0.5:
            # label -> target dictionary; some targets may be "hidden" (not keys)
            keys = [v for v in V if rng.random() < 0.8 or any(e[0] == v for e in E)]
            if rng.random() < 0.3:      # every sink is "hidden": it appears only as a target
                keys = [v for v in V if any(e[0] == v for e in E)]
            content = [[v, [[e[2], e[1]] for e in E if e[0] == v]] for v in keys]
            return {"op": "ctor_label", "new": self._new_id(world), "d": did,
                    "content": content, "starts": starts}
        content = []
        for v in V:
            nb = {}
            for e in E:
                if e[0] == v:
                    nb.setdefault(canon(e[1]), [e[1], []])[1].append(e[2])
            content.append([v, [nb[k] for k in sorted(nb)]])
        return {"op": "ctor_out", "new": self._new_id(world), "d": did,
                "content": content, "starts": starts}

    def _gen_table(self, rng, cfg):
        nn = rng.randint(1, 6)
        pool = rng.choice([["a", "A", "b", "B", "c", "C"], ["a", "b", "c", "d", "e", "f"],
                           HOSTILE_NAMES, ["s0", "s1", "s2", "s3", "s4", "s5"]])
        names = rng.sample(pool, min(nn, len(pool)))
        if cfg.get("table_pool") != "letters" and rng.random() < 0.1:
            names = [str(i) for i in range(len(names))]     # numeric-looking names: only valid when quoted
        n = rng.randint(1, 8)
        dens = rng.choice([0.2, 0.5, 0.8, 1.0])
        trans = [[(rng.randint(1, n) if rng.random() < dens else 0) for _ in names]
                 for _ in range(n)]
        for i in range(n):          # some rows of consecutive targets (printed as intervals by GAP)
            if len(names) >= 2 and len(names) <= n and rng.random() < 0.12:
                a = rng.randint(1, n - len(names) + 1)
                trans[i] = list(range(a, a + len(names)))
        k = 1 if rng.random() < 0.8 else rng.randint(1, min(3, n))
        if rng.random() < 0.5:
            s0 = rng.randint(1, n - k + 1)
            initial = list(range(s0, s0 + k))
        else:
            initial = sorted(rng.sample(range(1, n + 1), k))
        return {"names": names, "n": n, "transitions": trans, "initial": initial}

    def _gen_layout(self, rng):
        order = list(range(7))
        if rng.random() < 0.3:
            rng.shuffle(order)
        return {
            "recname": rng.choice(["_RWS.wa", "_RWS.geowa", "_RWS.diff1", "wa"]),
            "indent": rng.choice([0, 1, 2, 4, 8]),
            "tab": rng.random() < 0.15,
            "eol": rng.choice(["\n", "\n", "\r\n"]),
            "trailing_newline": rng.random() < 0.8,
            "assign": rng.choice([" := ", ":=", " :=", ":= ", "  :=  "]),
            "comma": rng.choice([",", ", "]),
            "accepting": rng.choice(["interval", "list"]),
            "initial_interval": rng.random() < 0.3,
            "row_break": rng.random() < 0.7,
            "row_pad": rng.random() < 0.3,
            "row_interval": rng.random() < 0.6,
            "quote_names": rng.random() < 0.2,
            "field_order": order,
        }

    def _gen_plan(self, rng, cfg, size):
        chunks = [rng.choice([1, 2, 3, 7, 16, 64, 500, 4096, 1 << 16])
                  for _ in range(rng.randint(1, 4))]
        bufsize = rng.choice([1, 2, 5, 16, 128, 1024, 8192])
        if size > 3000 and min(chunks) < 16 and bufsize < 16:
            bufsize = 128           # keep giant files cheap
        plan = {"kind": None, "chunks": chunks, "bufsize": bufsize}
        if cfg["faulty"] and cfg["fault_kinds"] and rng.random() < cfg["fault_rate"]:
            kind = rng.choice(cfg["fault_kinds"])
            plan["kind"] = kind
            if kind == "open_error":
                plan["exc"] = rng.choice(["ENOENT", "EACCES", "EMFILE"])
            elif kind == "read_error":
                plan["at"] = rng.randrange(max(1, self._count_reads(size, chunks, bufsize)))
            elif kind == "truncated":
                plan["at"] = rng.randrange(0, max(1, size))
            elif kind == "bitflip":
                plan["at"] = rng.randrange(0, max(1, size))
                plan["bit"] = rng.randrange(7)
        return plan

    @staticmethod
    def _count_reads(size, chunks, bufsize):
        p = simfs.FaultPlan(None, chunks, bufsize)
        raw = simfs.SimRaw(b"x" * size, p, "dry")
        f = io.BufferedReader(raw, buffer_size=p.bufsize)
        f.read()
        f.close()
        return p.raw_reads

    def _gen_io(self, rng, world):
        cfg = world.cfg
        if rng.random() < cfg["builtin_rate"] and self.builtin_names:
            name = rng.choice(self.builtin_names)
            small = [x for x in self.builtin_names if self.tables[x][0]["n"] <= 60]
            if self.tables[name][0]["n"] > 60 and rng.random() < 0.8 and small:
                name = rng.choice(small)
            size = self.tables[name][1]
            return {"op": "load_builtin", "new": self._new_id(world), "name": name,
                    "plan": self._gen_plan(rng, cfg, size)}
        if world.files and rng.random() < 0.6:
            fn = rng.choice(sorted(world.files))
            size = world.files[fn][1]
            return {"op": "load_kbmag", "new": self._new_id(world), "file": fn,
                    "plan": self._gen_plan(rng, cfg, size)}
        table = self._gen_table(rng, cfg)
        layout = self._gen_layout(rng)
        if any(x[:1].isdigit() for x in table["names"]):
            layout["quote_names"] = True
        if rng.random() < 0.15:
            layout["accepting_subset"] = sorted(rng.sample(range(1, table["n"] + 1), rng.randint(0, table["n"])))
        fn = "f%d.wa" % (len(world.files) + 1 + world.steps_done * 10)
        if world.files and rng.random() < 0.25:
            fn = rng.choice(sorted(world.files))       # the caller overwrites a file it wrote earlier
        return {"op": "write_file", "file": fn, "table": table, "layout": layout}

    def _gen_mutate(self, rng, world):
        cfg = world.cfg
        h = self._pick(rng, world)
        if h is None:
            return None
        U = self.universe(cfg)
        A = self.alphabet(cfg)
        Vl = sorted(h.V, key=vkey)
        r = rng.random()
        if r < 0.12:
            vs = rng.sample(U, rng.randint(1, min(3, len(U))))
            return {"op": "add_vertices", "h": h.id, "vs": vs,
                    "as": rng.choice(["list", "list", "tuple", "iter", "keys"])}
        if r < 0.50:
            pool = Vl + U
            labs = sorted(set(A) | set(h.labels()), key=vkey)
            for _ in range(8):
                t, hd, l = rng.choice(pool), rng.choice(pool), rng.choice(labs)
                if rng.random() < 0.3 and h.E:      # bias: parallel edge on an existing pair
                    e = rng.choice(sorted(h.E, key=ekey))
                    t, hd = e[0], e[1]
                if cfg.get("redundant_adds") and h.E and rng.random() < 0.3:
                    e = rng.choice(sorted(h.E, key=ekey))
                    return {"op": "add_edge", "h": h.id, "e": [e[0], e[1], e[2]], "ignore_redundant": False,
                            "redundant": True}
                if h.det_ok(t, l, hd):
                    op = {"op": "add_edge", "h": h.id, "e": [t, hd, l]}
                    if (t, hd, l) not in h.E and rng.random() < 0.2:
                        op["ignore_redundant"] = False      # legal: the edge is new
                    # sometimes several edges in one add_edges call
                    if rng.random() < 0.2:
                        more = []
                        taken = {(t, l): hd}
                        for _ in range(rng.randint(1, 3)):
                            t2, hd2, l2 = rng.choice(pool), rng.choice(pool), rng.choice(labs)
                            if h.det_ok(t2, l2, hd2) and taken.get((t2, l2), hd2) == hd2:
                                taken[(t2, l2)] = hd2
                                more.append([t2, hd2, l2])
                        if more and rng.random() < 0.3:
                            more.append(list(rng.choice(more + [[t, hd, l]])))   # the same edge twice in one call
                        if more:
                            op["more"] = more
                            op.pop("ignore_redundant", None)
                    return op
            return None
        if r < 0.66:
            pool = Vl + U
            labs = sorted(set(A) | set(h.labels()), key=vkey)
            t, hd = rng.choice(pool), rng.choice(pool)
            if rng.random() < 0.4 and h.E:
                e = rng.choice(sorted(h.E, key=ekey))
                t, hd = e[0], e[1]
            ls = [l for l in rng.sample(labs, rng.randint(1, min(3, len(labs))))
                  if h.det_ok(t, l, hd)]
            if not ls:
                return None
            return {"op": "add_edges_list", "h": h.id, "t": t, "hd": hd, "ls": ls}
        if r < 0.78 and Vl:
            return {"op": "delete_vertex", "h": h.id, "v": rng.choice(Vl)}
        if r < 0.84 and Vl:
            vs = rng.sample(Vl, rng.randint(1, min(3, len(Vl))))
            return {"op": "delete_vertices", "h": h.id, "vs": vs}
        if r < 0.90:
            return {"op": "recurrent_in", "h": h.id}
        if r < 0.96:
            m = self._gen_rename(rng, h, A)
            if m is None:
                return None
            return {"op": "rename_in", "h": h.id, "map": m}
        if Vl:
            if rng.random() < 0.4 and self._owns_starts(world, h):
                if h.S and rng.random() < 0.5:
                    return {"op": "starts_inplace", "h": h.id, "how": "remove", "v": rng.choice(h.S)}
                return {"op": "starts_inplace", "h": h.id, "how": "append", "v": rng.choice(Vl)}
            k = rng.randint(1, min(2, len(Vl)))
            return {"op": "set_starts", "h": h.id, "starts": rng.sample(Vl, k)}
        return None

    @staticmethod
    def _owns_starts(world, h):
        """the handle's start_vertices list object is shared with no other live handle (and is not
        the constructor's shared default list)"""
        if h.slist == "default":
            return False
        return not any(o.id != h.id and o.slist == h.slist for o in world.handles.values())

    def _gen_rename(self, rng, h, A):
        labs = h.labels()
        if not labs:
            return None
        if not all_str(labs):
            pool = SINGLE + ["C", "d", "D"]
            if len(pool) < len(labs):
                return None
            targets = rng.sample(pool, len(labs))
            return [[l, t] for l, t in zip(labs, targets)]
        width = len(labs[0]) if len({len(l) for l in labs}) == 1 else 1
        pool = [x for x in (SINGLE + ["C", "d", "D"] if width == 1 else DOUBLE + ["dd", "Dd"])]
        if len(pool) < len(labs) or any(len(l) != width for l in labs):
            return None
        targets = rng.sample(pool, len(labs))
        m = [[l, t] for l, t in zip(labs, targets)]
        # total maps may also cover labels that do not occur
        if rng.random() < 0.3:
            unused = [x for x in pool if x not in labs and x not in targets]
            if unused:
                m.append([rng.choice(unused), rng.choice(pool)])
        return m

    def _gen_derive(self, rng, world):
        cfg = world.cfg
        h = self._pick(rng, world, small=True)
        if h is None:
            return None
        r = rng.random()
        new = self._new_id(world)
        Vl = sorted(h.V, key=vkey)
        if r < 0.22:
            m = self._gen_rename(rng, h, self.alphabet(cfg))
            if m is None:
                return None
            return {"op": "d_rename", "new": new, "h": h.id, "map": m}
        if r < 0.42:
            return {"op": "d_recurrent", "new": new, "h": h.id}
        if r < 0.52:
            return {"op": "d_copy", "new": new, "h": h.id}
        if r < 0.75 and Vl:
            root = rng.choice(Vl)
            use_default = bool(h.S) and h.S[0] in h.V and rng.random() < 0.3
            return {"op": "d_shortest", "new": new, "h": h.id,
                    "root": None if use_default else root, "ties": rng.random() < 0.6}
        if h.S and all(s in h.V for s in h.S):
            labs = h.labels()
            if labs and not uniform(labs):
                return None
            deg = max([0] + [sum(1 for e in h.E if e[0] == v) for v in h.V])
            ks = [k for k in (1, 2, 3, 4) if deg ** k <= 64 and (not labs or len(labs[0]) * k <= 8)]
            if not ks:
                return None
            k = rng.choice(ks)
            return {"op": "d_multiple", "new": new, "h": h.id, "k": k,
                    "even": (k == 2 and rng.random() < 0.5)}
        return None

    def _gen_query(self, rng, world):
        h = self._pick(rng, world)
        if h is None:
            return None
        Vl = sorted(h.V, key=vkey)
        labs = h.labels() or self.alphabet(world.cfg)
        kind = rng.choice(QUERY)
        if not all_str(labs) and kind in ("q_prefix", "q_enum", "q_fixed"):
            return None
        op = {"op": kind, "h": h.id}
        if kind in ("q_has_edge", "q_edge_label", "q_edge_labels"):
            if not Vl:
                return None
            op["t"], op["hd"] = rng.choice(Vl), rng.choice(Vl)
            if h.E and rng.random() < 0.5:
                e = rng.choice(sorted(h.E, key=ekey))
                op["t"], op["hd"] = e[0], e[1]
        elif kind in ("q_neighbors", "q_edges_at"):
            if not Vl:
                return None
            op["v"] = rng.choice(Vl)
            op["dir"] = rng.choice(["out", "in"])
        elif kind in ("q_follow", "q_accepts", "q_prefix"):
            if not Vl:
                return None
            n = rng.randint(0, 5)
            word = self._rand_word(rng, h, labs, n)
            op["word"] = word
            use_default = bool(h.S) and all(s in h.V for s in h.S) and rng.random() < 0.4
            op["start"] = None if use_default else rng.choice(Vl)
            if kind == "q_prefix":
                if not (h.S and h.S[0] in h.V):
                    return None
                op["start"] = None
                op["rejected"] = rng.random() < 0.3
            elif op["start"] is None and not (h.S and all(s in h.V for s in h.S)):
                return None
        elif kind in ("q_enum", "q_fixed"):
            if not Vl or h.big:
                return None
            op["L"] = rng.randint(0, 4)
            use_default = bool(h.S) and h.S[0] in h.V and rng.random() < 0.4
            op["start"] = None if use_default else rng.choice(Vl)
            op["states"] = rng.random() < 0.5
        return op

    def _rand_word(self, rng, h, labs, n):
        """A word (list of labels) biased towards accepted ones."""
        adj = h.adj()
        word = []
        v = rng.choice(sorted(h.V, key=vkey)) if h.V else None
        for _ in range(n):
            if v is not None and adj.get(v) and rng.random() < 0.8:
                l, v = rng.choice(adj[v])
                word.append(l)
            else:
                word.append(rng.choice(labs))
                v = None
        return word

    def _gen_reject(self, rng, world):
        h = self._pick(rng, world)
        if h is None:
            return None
        kind = rng.choice(["delete_absent", "rename_partial", "follow_absent"])
        return {"op": "x_reject", "h": h.id, "kind": kind}

    # ------------------------------------------------------------------ interpreter
    @staticmethod
    def _devertex(op):
        """replay files are JSON: tuple-named vertices come back as lists"""
        def v(x):
            return tuple(x) if isinstance(x, list) else x
        o = dict(op)
        for key in ("v", "w", "t", "hd", "root", "start", "state"):
            if key in o:
                o[key] = v(o[key])
        for key in ("vs", "starts"):
            if isinstance(o.get(key), list):
                o[key] = [v(x) for x in o[key]]
        if isinstance(o.get("e"), list):
            o["e"] = [v(o["e"][0]), v(o["e"][1]), o["e"][2]]
        if isinstance(o.get("more"), list):
            o["more"] = [[v(e[0]), v(e[1]), e[2]] for e in o["more"]]
        if isinstance(o.get("content"), list):
            if o["op"] == "ctor_label":
                o["content"] = [[v(a), [[l, v(t)] for l, t in nb]] for a, nb in o["content"]]
            else:
                o["content"] = [[v(a), [[v(w), list(ls)] for w, ls in nb]] for a, nb in o["content"]]
        return o

    def apply(self, world, op):
        if world.cfg.get("vkind") == "tuple":
            op = self._devertex(op)
        k = op["op"]
        world.steps_done += 1
        fn = getattr(self, "_do_" + k, None)
        if fn is None:
            from .core import HarnessError
            raise HarnessError("engine %s has no interpreter for operation %r" % (NAME, k))
        vs = []
        hid = op.get("h")
        if hid is not None and hid not in world.handles:
            world.last_relation = "skip"
            return "skipped:no-handle", []
        self._relation(world, op)
        if op.get("drop_previous"):
            for hid_ in [x for x, hh in world.handles.items() if hh.origin in ("load_builtin", "load_kbmag")]:
                world.handles.pop(hid_, None)
        outcome = fn(world, op, vs)
        if outcome.startswith("skipped"):
            return outcome, []
        # invariants on every live handle
        touched = [x for x in (op.get("new"), op.get("h")) if x in world.handles]
        self._check_all(world, op, touched, vs)
        if k in MUTATE or k in ("x_reject",):
            world.prev_touched, world.last_touched = world.last_touched, op.get("h")
        elif touched:
            world.prev_touched, world.last_touched = world.last_touched, touched[0]
        return outcome, vs

    def _relation(self, world, op):
        k = op["op"]
        cls = ("M" if k in MUTATE else "D" if k in DERIVE else "C" if k in CONSTRUCT
               else "Q" if k in QUERY else "X")
        hid = op.get("h")
        rel = "new"
        lt = world.last_touched
        if hid is not None and hid in world.handles:
            h = world.handles[hid]
            if lt is None or lt not in world.handles:
                rel = "first"
            else:
                h0 = world.handles[lt]
                if h0.id == h.id:
                    rel = "same"
                elif h.parent == h0.id:
                    rel = "child-of-last"
                elif h0.parent == h.id:
                    rel = "parent-of-last"
                elif (h.group is not None and h.group == h0.group) or \
                        (h.parent is not None and h.parent == h0.parent):
                    rel = "sibling"
                else:
                    rel = "unrelated"
            if cls == "M":
                others = [o for o in world.handles.values() if o.id != h.id and
                          (o.parent == h.id or h.parent == o.id or
                           (o.group is not None and o.group == h.group) or
                           (o.parent is not None and o.parent == h.parent))]
                if others:
                    world.nontrivial = True
                    world.stats["probe.mutate_with_related_handle_alive"] += 1
        world.last_relation = cls + ":" + rel

    # ---- construction
    def _register(self, world, hid, real, V, E, S, origin, parent=None, group=None):
        h = Handle(hid, real, V, E, S, origin, parent, group)
        world.handles[hid] = h
        return h

    def _do_drop(self, world, op, vs):
        world.handles.pop(op["h"], None)
        return "ok"

    def _do_ctor_label(self, world, op, vs):
        did = op["d"]
        if op["content"] is not None:
            d = {v: {l: t for l, t in nb} for v, nb in op["content"]}
            V = list(d)
            for nb in d.values():
                for t in nb.values():
                    if t not in V:
                        V.append(t)
            world.dicts[did] = (d, "label", canon(op["content"]), V)
        elif did not in world.dicts or world.dicts[did][1] != "label":
            return "skipped:no-dict"
        d = world.dicts[did][0]
        V = set(d)
        E = set()
        for v, nb in d.items():
            for l, t in nb.items():
                E.add((v, t, l))
                V.add(t)
        starts = list(op["starts"])
        try:
            a = self.fsa.FSA(d, start_vertices=starts)
        except Exception as e:
            vs.append(viol("C09", "ctor_label.raised", repr(e)))
            return "raised:" + type(e).__name__
        self._register(world, op["new"], a, V, E, starts, "ctor_label", group="dict:" + did)
        return "ok"

    def _do_ctor_out(self, world, op, vs):
        did = op["d"]
        if op["content"] is not None:
            d = {v: {w: list(ls) for w, ls in nb} for v, nb in op["content"]}
            world.dicts[did] = (d, "out", canon(op["content"]), list(d))
        elif did not in world.dicts or world.dicts[did][1] != "out":
            return "skipped:no-dict"
        d = world.dicts[did][0]
        V = set(d)
        E = set()
        for v, nb in d.items():
            for w, ls in nb.items():
                if w not in V:
                    return "skipped:target-not-a-key"
                for l in ls:
                    E.add((v, w, l))
        starts = list(op["starts"])
        try:
            a = self.fsa.FSA(d, starts, graph_dict=False)
        except Exception as e:
            vs.append(viol("C09", "ctor_out.raised", repr(e)))
            return "raised:" + type(e).__name__
        self._register(world, op["new"], a, V, E, starts, "ctor_out", group="dict:" + did)
        return "ok"

    def _do_caller_edits_dict(self, world, op, vs):
        """the caller mutates, in place, a dict it passed to a constructor earlier; every automaton
        built from it must be unaffected (the model of the handles does not change)"""
        did = op["d"]
        if did not in world.dicts:
            return "skipped:no-dict"
        d, kind, snap, V = world.dicts[did]
        v, w, l = op["v"], op["w"], op["l"]
        if v not in d:
            return "skipped:no-key"
        if kind == "label":
            if op["how"] == "del":
                if not d[v]:
                    return "skipped:empty"
                d[v].pop(sorted(d[v], key=vkey)[0])
            else:
                d[v][l] = w
        else:
            if w not in d:
                return "skipped:no-key"
            if op["how"] == "del":
                if not d[v]:
                    return "skipped:empty"
                d[v].pop(sorted(d[v], key=vkey)[0])
            elif op["how"] == "append" and w in d[v]:
                if l in d[v][w] or any(l in ls for ls in d[v].values()):
                    return "skipped:nondeterministic"
                d[v][w].append(l)          # mutates a label *list* the constructor was given
            else:
                if any(l in ls for ls in d[v].values()):
                    return "skipped:nondeterministic"
                d[v].setdefault(w, []).append(l)
        world.stats["probe.caller_edited_its_dict"] += 1
        if any(h.group == "dict:" + did for h in world.live()):
            world.nontrivial = True
        return "ok"

    def _do_ctor_empty(self, world, op, vs):
        starts = op.get("starts")
        try:
            if starts is None:
                a = self.fsa.FSA()
            else:
                starts = list(starts)
                a = self.fsa.FSA(start_vertices=starts)
        except Exception as e:
            vs.append(viol("C09", "ctor_empty.raised", repr(e)))
            return "raised:" + type(e).__name__
        h = self._register(world, op["new"], a, set(), set(), starts or [], "ctor_empty")
        if starts is None:
            h.slist = "default"        # the constructor's shared default list: never edited in place
        return "ok"

    def _do_ctor_free(self, world, op, vs):
        gens = list(op["gens"])
        allg = sorted(set(gens) | {g.swapcase() for g in gens})
        V = set([""] + allg)
        E = {(g, h, h) for g in [""] + allg for h in allg if h.swapcase() != g}
        try:
            a = self.fsa.free_automaton(gens)
        except Exception as e:
            vs.append(viol("C09", "ctor_free.raised", repr(e)))
            return "raised:" + type(e).__name__
        self._register(world, op["new"], a, V, E, [""], "ctor_free")
        return "ok"

    def _do_write_file(self, world, op, vs):
        text = simfs.kbmag_text(op["table"], op["layout"])
        data = text.encode("utf-8")
        if op["file"] in world.files:
            world.stats["probe.file_overwritten"] += 1
        simfs.DISK.write_file(op["file"], data)
        world.files[op["file"]] = (op["table"], len(data))
        return "ok"

    def _do_load_kbmag(self, world, op, vs):
        fn = op["file"]
        if fn not in world.files:
            return "skipped:no-file"
        table = world.files[fn][0]
        path = simfs.DISK.path_of(fn)
        return self._load(world, op, vs, lambda: self.fsa.load_kbmag_file(path), table,
                          "file:" + fn)

    def _do_load_builtin(self, world, op, vs):
        name = op["name"]
        if name not in self.tables or self.tables[name][0] is None:
            return "skipped:no-builtin"
        table = self.tables[name][0]
        return self._load(world, op, vs, lambda: self.fsa.load_builtin(name), table,
                          "builtin:" + name)

    def _load(self, world, op, vs, call, table, group):
        """One load through the simulated disk, its fault oracle (DESIGN 3.5) and,
        after a faulted load, a clean reload (bounded liveness)."""
        plan = simfs.FaultPlan.from_json(op.get("plan"))
        V, E, S = simfs.table_automaton(table)
        disk = simfs.DISK
        hits0 = disk.seam_hits
        disk.plan = plan
        result, exc = None, None
        try:
            result = call()
        except Exception as e:      # noqa: any exception is a legal way to fail
            exc = e
        finally:
            disk.plan = None
        world.stats["seam_hits"] += disk.seam_hits - hits0
        world.stats["raw_reads"] += plan.raw_reads
        if plan.opened != plan.closed:
            world.stats["probe.sim_file_left_open"] += 1
        kind = plan.kind if plan.fired else None
        if plan.kind and not plan.fired:
            world.stats["fault.%s.not_fired" % plan.kind] += 1
        if kind:
            world.stats["fault.%s.fired" % kind] += 1
        else:
            world.stats["fault.short_read_only"] += 1
        outcome = "ok"
        need_reload = False
        if kind is None:
            if exc is not None:
                vs.append(viol("C09", "I2.raised", "fault-free load raised %r" % (exc,)))
                return "raised:" + type(exc).__name__
            if result is None:
                vs.append(viol("C09", "I2.none", "fault-free load returned None"))
                return "none"
            bad = self._table_mismatch(result, V, E, S)
            if bad:
                vs.append(viol("C09", bad[0], bad[1]))
                return "wrong"
        elif kind == "open_error":
            need_reload = True
            if exc is None and result is not None:
                vs.append(viol("C09", "F.open.returned",
                               "open() failed with %s but the loader returned %r" % (plan.exc, type(result).__name__)))
                return "wrong"
            outcome = "faulted:" + ("raised" if exc is not None else "none")
        elif kind == "read_error":
            need_reload = True
            if exc is None and result is not None:
                bad = self._table_mismatch(result, V, E, S)
                if bad:
                    vs.append(viol("C09", "F.read.wrong",
                                   "read() failed with EIO at raw read %d but the loader returned a "
                                   "different automaton: %s" % (plan.at, bad[1])))
                    return "wrong"
                outcome = "faulted:exact"
                need_reload = False
            else:
                outcome = "faulted:" + ("raised" if exc is not None else "none")
        else:   # truncated / bitflip: whatever comes back must be self-coherent
            need_reload = True
            outcome = "faulted:" + ("raised" if exc is not None else "none" if result is None else "automaton")
            if exc is None and result is not None:
                try:
                    bad = self._self_coherence(result)
                except Exception as e:
                    bad = "views raised %r" % (e,)
                if bad:
                    vs.append(viol("C09", "F.torn.incoherent", bad))
                    return "wrong"
        if need_reload:
            world.stats["liveness.reloads"] += 1
            disk.plan = simfs.FaultPlan(None, [1 << 16], 8192)
            try:
                result = call()
            except Exception as e:
                vs.append(viol("C09", "F.liveness", "clean reload after %s raised %r" % (kind, e)))
                return "wrong"
            finally:
                disk.plan = None
            if result is None:
                vs.append(viol("C09", "F.liveness", "clean reload after %s returned None" % kind))
                return "wrong"
            bad = self._table_mismatch(result, V, E, S)
            if bad:
                vs.append(viol("C09", "F.liveness", "clean reload after %s: %s" % (kind, bad[1])))
                return "wrong"
        self._register(world, op["new"], result, V, E, S, op["op"], group=group)
        return outcome

    def _table_mismatch(self, a, V, E, S):
        try:
            edges = list(a.edges(with_labels=True))
            verts = list(a.vertices())
            starts = list(a.start_vertices)
        except Exception as e:
            return ("I2.table", "reading the loaded automaton raised %r" % (e,))
        if set(map(tup, edges)) != E or len(edges) != len(E):
            miss = sorted(E - set(map(tup, edges)), key=ekey)[:3]
            extra = sorted(set(map(tup, edges)) - E, key=ekey)[:3]
            return ("I2.table", "edges differ from the written table: missing %r extra %r" % (miss, extra))
        if set(verts) != V:
            return ("I2.table", "vertices %r != 1..%d" % (sorted(verts, key=vkey)[:10], len(V)))
        if starts != S:
            return ("I2.starts", "start_vertices %r != initial %r" % (starts, S))
        return None

    def _self_coherence(self, a):
        verts = list(a.vertices())
        label = [tup(e) for e in a.edges(with_labels=True)]
        out = [tup(e) for v in verts for e in a.edges_out(v)]
        inn = [tup(e) for v in verts for e in a.edges_in(v)]
        if len(set(out)) != len(out) or len(set(inn)) != len(inn):
            return "an edge is listed twice"
        if not (set(label) == set(out) == set(inn)):
            return "views disagree"
        heads = {e[1] for e in label}
        if set(a.graph_dict) != set(verts):
            return "vertex sets disagree"
        return None

    # ---- mutation
    def _mut(self, world, op, vs, call, prop="C09"):
        h = world.handles[op["h"]]
        try:
            call(h.real)
        except Exception as e:
            vs.append(viol(prop, op["op"] + ".raised", "%s on valid arguments raised %r" % (op["op"], e)))
            world.handles.pop(h.id, None)
            return "raised:" + type(e).__name__
        return "ok"

    def _do_add_vertices(self, world, op, vs):
        h = world.handles[op["h"]]
        def arg():
            # any iterable of vertices: a list, a tuple, a one-shot iterator, a dict key view
            how = op.get("as", "list")
            if how == "tuple":
                return tuple(op["vs"])
            if how == "iter":
                return iter(list(op["vs"]))
            if how == "keys":
                return {v: None for v in op["vs"]}.keys()
            return list(op["vs"])
        out = self._mut(world, op, vs, lambda a: a.add_vertices(arg()))
        h.V |= set(op["vs"])
        return out

    def _do_add_edge(self, world, op, vs):
        h = world.handles[op["h"]]
        t, hd, l = op["e"]
        if not h.det_ok(t, l, hd):
            return "skipped:nondeterministic"
        edges = [(t, hd, l)]
        trial = set(h.E) | {(t, hd, l)}
        for e in op.get("more") or []:
            t2, hd2, l2 = e
            if any(x[0] == t2 and x[2] == l2 and x[1] != hd2 for x in trial):
                return "skipped:nondeterministic"
            trial.add((t2, hd2, l2))
            edges.append((t2, hd2, l2))
        if op.get("redundant"):
            # re-adding an existing edge with ignore_redundant=False: the caller asks for the edge to be
            # listed again in the out/in views; the language must not change (C10 runs only)
            if (t, hd, l) not in h.E or world.prop != "C10":
                return "skipped:redundant"
            out = self._mut(world, op, vs, lambda a: a.add_edges([(t, hd, l)], ignore_redundant=False))
            h.lenient = True
            world.stats["probe.edge_listed_twice_on_request"] += 1
            return out
        if op.get("ignore_redundant") is False:
            if (t, hd, l) in h.E or len(edges) > 1:
                return "skipped:redundant"
            out = self._mut(world, op, vs, lambda a: a.add_edges([(t, hd, l)], ignore_redundant=False))
            world.stats["probe.add_edge_ignore_redundant_false"] += 1
        else:
            out = self._mut(world, op, vs, lambda a: a.add_edges(list(edges)))
        if len(edges) > 1:
            world.stats["probe.add_several_edges_in_one_call"] += 1
        if (t, hd, l) in h.E:
            world.stats["probe.add_existing_edge"] += 1
        elif any(e[0] == t and e[1] == hd for e in h.E):
            world.stats["probe.add_parallel_edge"] += 1
        for (t2, hd2, l2) in edges:
            h.V |= {t2, hd2}
            h.E.add((t2, hd2, l2))
        return out

    def _do_add_edges_list(self, world, op, vs):
        h = world.handles[op["h"]]
        t, hd, ls = op["t"], op["hd"], list(op["ls"])
        if len(set(ls)) != len(ls) or not ls or not all(h.det_ok(t, l, hd) for l in ls):
            return "skipped:precondition"
        out = self._mut(world, op, vs, lambda a: a.add_edges([(t, hd, list(ls))], elist=True))
        if any((t, hd, l) in h.E for l in ls):
            world.stats["probe.elist_overlaps_existing"] += 1
        h.V |= {t, hd}
        for l in ls:
            h.E.add((t, hd, l))
        return out

    def _delete(self, h, vs_):
        for v in vs_:
            h.V.discard(v)
        h.E = {e for e in h.E if e[0] not in vs_ and e[1] not in vs_}

    def _do_delete_vertex(self, world, op, vs):
        h = world.handles[op["h"]]
        v = op["v"]
        if v not in h.V:
            return "skipped:absent"
        if (v, v) in {(e[0], e[1]) for e in h.E}:
            world.stats["probe.delete_vertex_with_self_loop"] += 1
        out = self._mut(world, op, vs, lambda a: a.delete_vertex(v))
        self._delete(h, [v])
        return out

    def _do_delete_vertices(self, world, op, vs):
        h = world.handles[op["h"]]
        vl = list(op["vs"])
        if not all(v in h.V for v in vl) or len(set(map(canon, vl))) != len(vl):
            return "skipped:absent"
        out = self._mut(world, op, vs, lambda a: a.delete_vertices(list(vl)))
        self._delete(h, vl)
        return out

    @staticmethod
    def _prune(V, E):
        V, E = set(V), set(E)
        while True:
            has_out = {e[0] for e in E}
            has_in = {e[1] for e in E}
            dead = {v for v in V if v not in has_out or v not in has_in}
            if not dead:
                return V, E
            V -= dead
            E = {e for e in E if e[0] not in dead and e[1] not in dead}

    def _do_recurrent_in(self, world, op, vs):
        h = world.handles[op["h"]]
        out = self._mut(world, op, vs, lambda a: a.recurrent(inplace=True))
        V2, E2 = self._prune(h.V, h.E)
        if V2 != h.V:
            world.stats["probe.recurrent_pruned"] += 1
        h.V, h.E = V2, E2
        return out

    @staticmethod
    def _map_ok(h, m):
        labs = h.labels()
        md = {a: b for a, b in m}
        if not all(l in md for l in labs):
            return None
        if len({md[l] for l in labs}) != len(labs):
            return None
        return md

    def _do_rename_in(self, world, op, vs):
        h = world.handles[op["h"]]
        md = self._map_ok(h, op["map"])
        if md is None:
            return "skipped:map"
        out = self._mut(world, op, vs, lambda a: a.rename_generators(dict(md), inplace=True))
        h.E = {(t, hd, md[l]) for (t, hd, l) in h.E}
        return out

    def _do_starts_inplace(self, world, op, vs):
        """the caller edits the public start_vertices *list object* in place"""
        h = world.handles[op["h"]]
        if not self._owns_starts(world, h):
            return "skipped:shared-list"
        v = op["v"]
        try:
            if not isinstance(h.real.start_vertices, list):
                return "skipped:not-a-list"
        except Exception:
            return "skipped:not-a-list"
        if op["how"] == "remove":
            if v not in h.S:
                return "skipped:absent"
            out = self._mut(world, op, vs, lambda a: a.start_vertices.remove(v))
            h.S.remove(v)
        else:
            if v in h.S:
                return "skipped:present"
            out = self._mut(world, op, vs, lambda a: a.start_vertices.append(v))
            h.S.append(v)
        world.stats["probe.start_list_edited_in_place"] += 1
        return out

    def _do_set_starts(self, world, op, vs):
        h = world.handles[op["h"]]
        starts = list(op["starts"])

        def call(a):
            a.start_vertices = starts
        out = self._mut(world, op, vs, call)
        h.S = list(starts)
        h.rebound_starts = True
        h.slist = "set:%s:%d" % (h.id, world.steps_done)
        return out

    # ---- derivation
    def _derive(self, world, op, vs, call, predict, inv, check=None):
        h = world.handles[op["h"]]
        try:
            new = call(h.real)
        except Exception as e:
            vs.append(viol("C10", inv + ".raised", "%s on valid arguments raised %r" % (op["op"], e)))
            return "raised:" + type(e).__name__
        if new is None or not hasattr(new, "edges"):
            vs.append(viol("C10", inv + ".none", "%s returned %r, not an automaton" % (op["op"], type(new).__name__)))
            return "wrong"
        V2, E2, S2 = predict(h, new)
        nh = self._register(world, op["new"], new, V2, E2, S2, op["op"], parent=h.id)
        if h.lenient and op["op"] in ("d_copy", "d_recurrent", "d_shortest"):
            nh.lenient = True
        if op["op"] in ("d_rename", "d_multiple"):
            nh.slist = h.slist          # these share the original's list object on the current tree
        elif op["op"] == "d_shortest":
            nh.slist = "default"        # FSA({}) -> the constructor's shared default list
        if check is not None:
            bad = check(h, nh)
            if bad:
                vs.append(viol("C10", inv, bad))
                return "wrong"
        else:
            bad = self._edge_mismatch(nh)
            if bad:
                vs.append(viol("C10", inv, bad))
                return "wrong"
        return "ok"

    def _edge_mismatch(self, nh):
        try:
            edges = [tup(e) for e in nh.real.edges(with_labels=True)]
            verts = set(nh.real.vertices())
        except Exception as e:
            return "reading the derived automaton raised %r" % (e,)
        if not all(_hashable(e) for e in edges):
            return "the derived automaton's label view contains an edge that is not (vertex, vertex, label): %r" % (
                [e for e in edges if not _hashable(e)][:2],)
        if set(edges) != nh.E:
            miss = sorted(nh.E - set(edges), key=ekey)[:3]
            extra = sorted(set(edges) - nh.E, key=ekey)[:3]
            return "edge set differs from the model's prediction: missing %r extra %r" % (miss, extra)
        if verts != nh.V:
            return "vertex set %r differs from predicted %r" % (sorted(verts, key=vkey)[:10],
                                                                sorted(nh.V, key=vkey)[:10])
        try:
            starts = list(nh.real.start_vertices)
        except Exception as e:
            return "reading start_vertices raised %r" % (e,)
        if starts != nh.S:
            return "start vertices %r differ from the original's %r" % (starts, nh.S)
        return None

    def _do_d_copy(self, world, op, vs):
        return self._derive(world, op, vs, lambda a: copy.deepcopy(a),
                            lambda h, n: (h.V, h.E, h.S), "I4.copy")

    def _do_d_rename(self, world, op, vs):
        h = world.handles[op["h"]]
        md = self._map_ok(h, op["map"])
        if md is None:
            return "skipped:map"
        return self._derive(world, op, vs,
                            lambda a: a.rename_generators(dict(md), inplace=False),
                            lambda h, n: (h.V, {(t, hd, md[l]) for (t, hd, l) in h.E}, h.S),
                            "I4.rename")

    def _do_d_recurrent(self, world, op, vs):
        def predict(h, n):
            V2, E2 = self._prune(h.V, h.E)
            return V2, E2, h.S
        return self._derive(world, op, vs, lambda a: a.recurrent(), predict, "I4.recurrent")

    def _bfs(self, h, root):
        adj = h.adj()
        dist = {root: 0}
        q = [root]
        while q:
            v = q.pop(0)
            for _, w in adj[v]:
                if w not in dist:
                    dist[w] = dist[v] + 1
                    q.append(w)
        return dist

    def _do_d_shortest(self, world, op, vs):
        h = world.handles[op["h"]]
        root = op["root"]
        ties = bool(op["ties"])
        if root is None:
            if not (h.S and h.S[0] in h.V):
                return "skipped:no-default-root"
            eff_root = h.S[0]
        else:
            if root not in h.V:
                return "skipped:root"
            eff_root = root
        dist = self._bfs(h, eff_root)
        short = {(t, hd, l) for (t, hd, l) in h.E
                 if t in dist and hd in dist and dist[hd] == dist[t] + 1}

        def call(a):
            if root is None:
                return a.remove_long_paths(edge_ties=ties)
            return a.remove_long_paths(root=root, edge_ties=ties)

        def predict(h_, new):
            try:
                S2 = list(new.start_vertices)
            except Exception:
                S2 = []
            # the property speaks of edges; whether vertices not reachable from the root are kept is
            # not specified, so any vertex set between "reachable" and "all" is taken as given
            try:
                got_v = set(new.vertices())
            except Exception:
                got_v = None
            V2 = got_v if (got_v is not None and set(dist) <= got_v <= h_.V) else h_.V
            if ties:
                return V2, short, S2
            # edge_ties=False: the result is not unique; read it back, then check it
            try:
                got = {tup(e) for e in new.edges(with_labels=True)}
            except Exception:
                got = set()
            return V2, got, S2

        def check(h_, nh):
            bad = self._edge_mismatch(nh)
            if bad:
                return bad
            if not ties:
                if not nh.E <= short:
                    return "edge_ties=False kept an edge that is not on a shortest path: %r" % (
                        sorted(nh.E - short, key=ekey)[:3],)
                d2 = self._bfs(nh, eff_root)
                if d2 != dist:
                    return "edge_ties=False: distances from the root changed"
                # a tree: every reached non-root vertex has exactly one parent vertex
                parents = {}
                for (t, hd, l) in nh.E:
                    parents.setdefault(hd, set()).add(t)
                if any(len(p) != 1 for p in parents.values()):
                    return "edge_ties=False: a vertex kept edges from two parents"
                # all parallel labels of the kept pair are kept
                for (t, hd, l) in short:
                    if hd in parents and t in parents[hd] and (t, hd, l) not in nh.E:
                        return "edge_ties=False: dropped a parallel label of a kept edge"
            return None
        return self._derive(world, op, vs, call, predict, "I4.shortest", check)

    def _lang(self, adj, s, n):
        """accepted label-paths from s: list over length 0..n of lists of (labels tuple, end)"""
        levels = [[((), s)]]
        for _ in range(n):
            nxt = []
            for p, v in levels[-1]:
                for l, w in adj[v]:
                    nxt.append((p + (l,), w))
            levels.append(nxt)
        return levels

    def _do_d_multiple(self, world, op, vs):
        h = world.handles[op["h"]]
        k = int(op["k"])
        if not (h.S and all(s in h.V for s in h.S)):
            return "skipped:starts"
        labs = h.labels()
        if labs and not uniform(labs):
            return "skipped:labels-not-uniform"
        deg = max([0] + [sum(1 for e in h.E if e[0] == v) for v in h.V])
        if deg ** k > 64 or h.big:
            return "skipped:too-big"
        m = 2 if deg ** (2 * k) <= 600 else 1

        def call(a):
            if op.get("even") and k == 2:
                return a.even_automaton()
            return a.automaton_multiple(k)

        def predict(h_, new):
            # language oracle only: the model of the new handle is read back from its label view
            got = {tup(e) for e in new.edges(with_labels=True)}
            return set(new.vertices()), got, list(new.start_vertices)

        def check(h_, nh):
            adj = h_.adj()
            for s in h_.S:
                want = Counter()
                lv = self._lang(adj, s, k * m)
                for j in range(0, m + 1):
                    for p, v in lv[j * k]:
                        want["".join(p)] += 1
                try:
                    got = Counter(nh.real.enumerate_words(m, start_vertex=s))
                except Exception as e:
                    return "enumerating the %d-multiple from %r raised %r" % (k, s, e)
                if got != want:
                    miss = sorted((want - got).elements())[:4]
                    extra = sorted((got - want).elements())[:4]
                    return ("the %d-multiple automaton's language from start %r (<= %d steps) is not the "
                            "accepted words of length multiple of %d: missing %r extra %r"
                            % (k, s, m, k, miss, extra))
            if list(nh.real.start_vertices) != list(h_.S):
                return "start vertices of the multiple automaton %r != %r" % (
                    list(nh.real.start_vertices), h_.S)
            return None
        return self._derive(world, op, vs, call, predict, "I4.multiple", check)

    # ---- queries
    def _word(self, world, op):
        w = list(op["word"])
        if world.cfg.get("word_as") == "str" and all(isinstance(l, str) and len(l) == 1 for l in w):
            return "".join(w)
        return tuple(w)

    def _walk(self, h, start, word):
        adj = {v: dict(x) for v, x in h.adj().items()}
        v = start
        n = 0
        for l in word:
            if v in adj and l in adj[v]:
                v = adj[v][l]
                n += 1
            else:
                return None, n
        return v, n

    def _q(self, world, op, vs, call, expect, prop, cmp=None):
        h = world.handles[op["h"]]
        if h.lenient and op["op"] in ("q_edge_label", "q_edge_labels", "q_edges_at"):
            # the caller asked for an edge to be listed twice on this automaton; how often these
            # queries list it is then not a matter for any property
            return "skipped:lenient"
        try:
            got = call(h.real)
        except Exception as e:
            got = ("raised", type(e).__name__)
        want = expect(h)
        ok = cmp(got, want) if cmp else got == want
        if not ok:
            vs.append(viol(prop, "Q.value." + op["op"][2:],
                           "%s%r returned %r, the model says %r" % (
                               op["op"], {k: v for k, v in op.items() if k not in ("op", "caller")},
                               _short(got), _short(want))))
            return "wrong"
        return "ok"

    def _do_q_has_edge(self, world, op, vs):
        t, hd = op["t"], op["hd"]
        h = world.handles[op["h"]]
        if t not in h.V or hd not in h.V:
            return "skipped:absent"
        return self._q(world, op, vs, lambda a: bool(a.has_edge(t, hd)),
                       lambda h: any(e[0] == t and e[1] == hd for e in h.E), "C09")

    def _do_q_edge_label(self, world, op, vs):
        t, hd = op["t"], op["hd"]
        h = world.handles[op["h"]]
        if t not in h.V or hd not in h.V:
            return "skipped:absent"

        def expect(h):
            ls = [e[2] for e in h.E if e[0] == t and e[1] == hd]
            return ls[0] if len(ls) == 1 else ("raised", "*")
        # "will raise an exception if there is not a unique edge": any exception type is accepted
        return self._q(world, op, vs, lambda a: a.edge_label(t, hd), expect, "C09",
                       cmp=lambda got, want: (isinstance(got, tuple) and got[:1] == ("raised",))
                       if want == ("raised", "*") else got == want)

    def _do_q_edge_labels(self, world, op, vs):
        t, hd = op["t"], op["hd"]
        h = world.handles[op["h"]]
        if t not in h.V or hd not in h.V:
            return "skipped:absent"
        return self._q(world, op, vs, lambda a: sorted(a.edge_labels(t, hd), key=vkey),
                       lambda h: sorted((e[2] for e in h.E if e[0] == t and e[1] == hd), key=vkey), "C09")

    def _do_q_neighbors(self, world, op, vs):
        v, d = op["v"], op["dir"]
        h = world.handles[op["h"]]
        if v not in h.V:
            return "skipped:absent"
        if d == "out":
            return self._q(world, op, vs, lambda a: sorted(a.neighbors_out(v), key=vkey),
                           lambda h: sorted({e[1] for e in h.E if e[0] == v}, key=vkey), "C09")
        return self._q(world, op, vs, lambda a: sorted(a.neighbors_in(v), key=vkey),
                       lambda h: sorted({e[0] for e in h.E if e[1] == v}, key=vkey), "C09")

    def _do_q_edges_at(self, world, op, vs):
        v, d = op["v"], op["dir"]
        h = world.handles[op["h"]]
        if v not in h.V:
            return "skipped:absent"
        if d == "out":
            return self._q(world, op, vs, lambda a: sorted(map(tup, a.edges_out(v)), key=ekey),
                           lambda h: sorted((e for e in h.E if e[0] == v), key=ekey), "C09")
        return self._q(world, op, vs, lambda a: sorted(map(tup, a.edges_in(v)), key=ekey),
                       lambda h: sorted((e for e in h.E if e[1] == v), key=ekey), "C09")

    def _do_q_vertices(self, world, op, vs):
        return self._q(world, op, vs, lambda a: sorted(a.vertices(), key=vkey),
                       lambda h: sorted(h.V, key=vkey), "C09")

    def _do_q_edges(self, world, op, vs):
        return self._q(world, op, vs, lambda a: sorted((tuple(e) for e in a.edges()),
                                                        key=lambda e: (vkey(e[0]), vkey(e[1]))),
                       lambda h: sorted(((e[0], e[1]) for e in h.E),
                                        key=lambda e: (vkey(e[0]), vkey(e[1]))), "C09")

    def _do_q_str(self, world, op, vs):
        return self._q(world, op, vs, lambda a: (str(a)[:3], repr(a)[:3]),
                       lambda h: ("FSA", "FSA"), "C09")

    def _do_q_list_builtins(self, world, op, vs):
        return self._q(world, op, vs, lambda a: sorted(self.fsa.list_builtins()),
                       lambda h: sorted(os.listdir(self.builtin_dir)), "C09")

    def _do_q_follow(self, world, op, vs):
        h = world.handles[op["h"]]
        start = op["start"]
        if start is None:
            if not (h.S and h.S[0] in h.V):
                return "skipped:no-default-start"
            s = h.S[0]
        else:
            if start not in h.V:
                return "skipped:absent"
            s = start
        word = self._word(world, op)

        def expect(h):
            v, n = self._walk(h, s, op["word"])
            return v if n == len(op["word"]) else ("raised", "FSAException")
        if start is None:
            return self._q(world, op, vs, lambda a: a.follow_word(word), expect, "C10")
        return self._q(world, op, vs, lambda a: a.follow_word(word, start_vertex=start), expect, "C10")

    def _do_q_accepts(self, world, op, vs):
        h = world.handles[op["h"]]
        start = op["start"]
        if start is None:
            if not (h.S and all(s in h.V for s in h.S)):
                return "skipped:no-default-start"
            ss = list(h.S)
        else:
            if start not in h.V:
                return "skipped:absent"
            ss = [start]
        word = self._word(world, op)

        def expect(h):
            return any(self._walk(h, s, op["word"])[1] == len(op["word"]) for s in ss)
        if start is None:
            return self._q(world, op, vs, lambda a: a.accepts(word), expect, "C10")
        return self._q(world, op, vs, lambda a: a.accepts(word, start_vertex=start), expect, "C10")

    def _do_q_prefix(self, world, op, vs):
        h = world.handles[op["h"]]
        if not (h.S and h.S[0] in h.V):
            return "skipped:no-default-start"
        w = list(op["word"])
        if any(not isinstance(l, str) for l in w):
            return "skipped:non-string-labels"
        if any(len(l) != 1 for l in w):
            # multi-character labels: the word is a list of labels, the answer their concatenation
            if op.get("rejected"):
                return "skipped:multichar"
            v, n = self._walk(h, h.S[0], w)
            return self._q(world, op, vs, lambda a: a.initial_accepted_subword(list(w)),
                           lambda h: "".join(w[:n]), "C10")
        word = "".join(w)
        v, n = self._walk(h, h.S[0], w)
        if op.get("rejected"):
            if n == len(w):
                return "skipped:accepted"      # docstring and code disagree there; C10 is silent
            return self._q(world, op, vs, lambda a: a.initial_rejected_subword(word),
                           lambda h: word[:n + 1], "C10")
        return self._q(world, op, vs, lambda a: a.initial_accepted_subword(word),
                       lambda h: word[:n], "C10")

    def _do_q_enum(self, world, op, vs):
        return self._enum(world, op, vs, fixed=False)

    def _do_q_fixed(self, world, op, vs):
        return self._enum(world, op, vs, fixed=True)

    def _enum(self, world, op, vs, fixed):
        h = world.handles[op["h"]]
        if not all_str(h.labels()):
            return "skipped:non-string-labels"
        start, L, states = op["start"], int(op["L"]), bool(op["states"])
        if start is None:
            if not (h.S and h.S[0] in h.V):
                return "skipped:no-default-start"
            s = h.S[0]
        else:
            if start not in h.V:
                return "skipped:absent"
            s = start
        deg = max([1] + [sum(1 for e in h.E if e[0] == v) for v in h.V])
        while L > 0 and deg ** L > 2000:
            L -= 1

        def expect(h):
            lv = self._lang(h.adj(), s, L)
            items = lv[L] if fixed else [x for l in lv for x in l]
            if states:
                return Counter(("".join(p), v) for p, v in items)
            return Counter("".join(p) for p, v in items)

        def call(a):
            kw = {"with_states": states}
            if start is not None:
                kw["start_vertex"] = start
            if fixed:
                return Counter(a.enumerate_fixed_length_paths(L, **kw))
            return Counter(a.enumerate_words(L, **kw))
        return self._q(world, op, vs, call, expect, "C10")

    # ---- rejected operations
    def _do_x_reject(self, world, op, vs):
        h = world.handles[op["h"]]
        a = h.real
        kind = op["kind"]
        absent = "#absent#"
        try:
            if kind == "delete_absent":
                a.delete_vertex(absent)
            elif kind == "rename_partial":
                labs = h.labels()
                if not labs:
                    return "skipped:no-labels"
                a.rename_generators({}, inplace=True)
            else:
                a.follow_word(["a"], start_vertex=absent)
            out = "rejected:noraise"
        except Exception as e:
            out = "rejected:" + type(e).__name__
        # no property promises failure atomicity: the handle is retired
        world.handles.pop(h.id, None)
        world.stats["fault.rejected_op"] += 1
        return out

    # ------------------------------------------------------------------ invariants
    def _check_all(self, world, op, touched, vs):
        cfg = world.cfg
        for h in world.live():
            if h.big and h.id not in touched and (world.steps_done % 4):
                continue            # giant built-ins: re-check every 4th step unless touched
            bad = self._i1(h, cfg.get("i1_mode", "accessors"))
            if bad:
                prop = "C09"
                inv, detail = bad
                rel = ""
                if h.id not in touched:
                    # I5: a step on another handle moved this one
                    for tid in touched:
                        src = world.handles.get(tid)
                        if src is None:
                            continue
                        if (src.parent == h.id and src.origin in NONINPLACE) or \
                                (h.parent == src.id and h.origin in NONINPLACE):
                            prop = "C10"
                    inv = "I5." + inv
                    rel = " (handle %s was not operated on; step touched %s)" % (h.id, touched)
                vs.append(viol(prop, inv, "handle %s [%s]: %s%s" % (h.id, h.origin, detail, rel)))
        if vs:
            return
        if cfg.get("i3"):
            todo = list(touched)
            for x in (world.last_touched, world.prev_touched):
                if x in world.handles and x not in todo:
                    todo.append(x)
            # parent / children of the touched handle: derived-vs-original independence
            for hid in list(touched):
                hh = world.handles[hid]
                for o in world.live():
                    if (o.parent == hid or hh.parent == o.id) and o.id not in todo:
                        todo.append(o.id)
            for hid in todo[:4]:
                h = world.handles[hid]
                bad = self._i3(world, h)
                if bad:
                    inv, detail = bad
                    if hid not in touched:
                        inv = "I5." + inv
                    vs.append(viol("C10", inv, "handle %s [%s]: %s" % (h.id, h.origin, detail)))
                    return

    def _i1(self, h, mode="accessors"):
        a = h.real
        try:
            verts = list(a.vertices())
            gd = a.graph_dict
            label = [tup(e) for e in a.edges(with_labels=True)]
            label2 = [(v, w, l) for v, nb in gd.items() for l, w in nb.items()]
            if mode == "properties":
                # read-only iteration over the public out_dict / in_dict properties
                out = [(v, w, l) for v, nb in a.out_dict.items() for w, ls in nb.items() for l in ls]
                inn = [(w, v, l) for v, nb in a.in_dict.items() for w, ls in nb.items() for l in ls]
                nout = {(v, w) for v, nb in a.out_dict.items() for w in nb}
                nin = {(w, v) for v, nb in a.in_dict.items() for w in nb}
            else:
                out = [tup(e) for v in verts for e in a.edges_out(v)]
                inn = [tup(e) for v in verts for e in a.edges_in(v)]
                nout = {(v, w) for v in verts for w in a.neighbors_out(v)}
                nin = {(w, v) for v in verts for w in a.neighbors_in(v)}
            starts = list(a.start_vertices)
        except Exception as e:
            return ("I1.raised", "reading the views raised %r" % (e,))
        E = h.E
        for name, lst in (("label", label), ("out", out), ("in", inn)):
            try:
                set(lst)
            except TypeError:
                junk = [e for e in lst if not _hashable(e)][:2]
                return ("I1.diff." + name, "the %s view contains an edge that is not (vertex, vertex, "
                        "label): %r" % (name, junk))
        if set(verts) != h.V or set(gd) != h.V or len(verts) != len(h.V):
            return ("I1.verts", "vertices() %r / graph_dict keys %r, model %r" % (
                sorted(verts, key=vkey)[:12], sorted(gd, key=vkey)[:12], sorted(h.V, key=vkey)[:12]))
        for name, lst in (("label", label), ("label", label2), ("out", out), ("in", inn)):
            if h.lenient and name in ("out", "in"):
                continue
            if len(set(lst)) != len(lst):
                dup = [e for e, n in Counter(lst).items() if n > 1][:3]
                return ("I1.dup." + name, "the %s view lists an edge twice: %r" % (name, dup))
        for name, lst in (("label", label), ("label", label2), ("out", out), ("in", inn)):
            s = set(lst)
            if s != E:
                return ("I1.diff." + name, "the %s view differs from the model: missing %r extra %r" % (
                    name, sorted(E - s, key=ekey)[:3], sorted(s - E, key=ekey)[:3]))
        pairs = {(e[0], e[1]) for e in E}
        if nout != pairs:
            return ("I1.nbrs.out", "neighbors_out lists a non-neighbour or misses one: %r" % (
                sorted(nout ^ pairs, key=lambda p: (vkey(p[0]), vkey(p[1])))[:3],))
        if nin != pairs:
            return ("I1.nbrs.in", "neighbors_in lists a non-neighbour or misses one: %r" % (
                sorted(nin ^ pairs, key=lambda p: (vkey(p[0]), vkey(p[1])))[:3],))
        if starts != h.S:
            return ("I1.starts", "start_vertices %r, model %r" % (starts, h.S))
        return None

    def _i3(self, world, h):
        """language agreement on one handle (DESIGN 3.4 I3)."""
        cfg = world.cfg
        L = int(cfg["L"])
        a = h.real
        adj = h.adj()
        Vl = sorted(h.V, key=vkey)
        deg = max([1] + [len(x) for x in adj.values()])
        while L > 0 and deg ** L > 400:
            L -= 1
        if h.big:
            L = min(L, 2)
            starts = [s for s in h.S if s in h.V] + Vl[:2]
        else:
            starts = Vl
        labs = h.labels()
        if not all_str(labs):
            return None         # enumeration concatenates labels: strings only
        single = all(len(l) == 1 for l in labs)
        as_str = single and cfg.get("word_as") == "str"
        fsa_exc = self.fsa.FSAException
        for s in starts:
            lv = self._lang(adj, s, L)
            want = Counter(("".join(p), v) for l in lv for p, v in l)
            try:
                got = Counter(a.enumerate_words(L, start_vertex=s, with_states=True))
            except Exception as e:
                return ("I3.enum", "enumerate_words(%d, %r) raised %r" % (L, s, e))
            if got != want:
                return ("I3.enum", "enumerate_words(%d, start=%r): missing %r extra %r" % (
                    L, s, sorted((want - got).elements(), key=str)[:3],
                    sorted((got - want).elements(), key=str)[:3]))
            wantf = Counter("".join(p) for p, v in lv[L])
            try:
                gotf = Counter(a.enumerate_fixed_length_paths(L, start_vertex=s))
            except Exception as e:
                return ("I3.fixed", "enumerate_fixed_length_paths(%d, %r) raised %r" % (L, s, e))
            if gotf != wantf:
                return ("I3.fixed", "enumerate_fixed_length_paths(%d, start=%r): missing %r extra %r" % (
                    L, s, sorted((wantf - gotf).elements())[:3], sorted((gotf - wantf).elements())[:3]))
            # acceptance / walk on accepted words, and on one-letter extensions that are rejected
            n_acc = 0
            for l in lv:
                for p, v in l:
                    n_acc += 1
                    if n_acc > 60:
                        break
                    w = "".join(p) if as_str else p
                    try:
                        end = a.follow_word(w, start_vertex=s)
                        acc = a.accepts(w, start_vertex=s)
                    except Exception as e:
                        return ("I3.follow", "follow_word/accepts(%r, start=%r) raised %r on an accepted word" % (w, s, e))
                    if end != v:
                        return ("I3.follow", "follow_word(%r, start=%r) = %r, model %r" % (w, s, end, v))
                    if acc is not True:
                        return ("I3.accepts", "accepts(%r, start=%r) = %r on an accepted word" % (w, s, acc))
                    # rejected extensions
                    have = {x for x, _ in adj[v]}
                    for x in labs:
                        if x not in have:
                            bad = p + (x,)
                            wb = "".join(bad) if as_str else bad
                            try:
                                acc = a.accepts(wb, start_vertex=s)
                            except Exception as e:
                                return ("I3.accepts", "accepts(%r, start=%r) raised %r" % (wb, s, e))
                            if acc is not False:
                                return ("I3.accepts", "accepts(%r, start=%r) = %r on a rejected word" % (wb, s, acc))
                            try:
                                a.follow_word(wb, start_vertex=s)
                                return ("I3.follow", "follow_word(%r, start=%r) did not raise on a rejected word" % (wb, s))
                            except fsa_exc:
                                pass
                            except Exception as e:
                                return ("I3.follow", "follow_word(%r, start=%r) raised %r, not FSAException" % (wb, s, e))
                            break
        # default-start behaviour
        if h.S and all(s in h.V for s in h.S):
            s0 = h.S[0]
            lv = self._lang(adj, s0, L)
            want = Counter("".join(p) for l in lv for p, v in l)
            try:
                got = Counter(a.enumerate_words(L))
            except Exception as e:
                return ("I3.enum", "enumerate_words(%d) raised %r" % (L, e))
            if got != want:
                return ("I3.enum", "enumerate_words(%d) from the default start %r: missing %r extra %r" % (
                    L, s0, sorted((want - got).elements())[:3], sorted((got - want).elements())[:3]))
            # accepts() without a start state: "any start state is allowed"
            acc_any = {}
            for sx in h.S:
                for l in self._lang(adj, sx, min(L, 2)):
                    for p, v in l[:8]:
                        acc_any[p] = True
            rej = []
            for p in list(acc_any)[:6]:
                for x in labs:
                    q = p + (x,)
                    if q not in acc_any and not any(self._walk(h, sx, list(q))[1] == len(q) for sx in h.S):
                        rej.append(q)
                        break
            for p, want_acc in [(p, True) for p in list(acc_any)[:12]] + [(q, False) for q in rej[:4]]:
                w = "".join(p) if as_str else p
                try:
                    got = a.accepts(w)
                except Exception as e:
                    return ("I3.accepts", "accepts(%r) raised %r" % (w, e))
                if got is not want_acc:
                    return ("I3.accepts", "accepts(%r) with start states %r = %r, model %r" % (w, h.S, got, want_acc))
            if single:
                for p, v in lv[L][:10]:
                    w = "".join(p)
                    for suffix in [""] + [x for x in labs[:2]]:
                        full = w + suffix
                        _, n = self._walk(h, s0, list(full))
                        try:
                            got = a.initial_accepted_subword(full)
                        except Exception as e:
                            return ("I3.prefix", "initial_accepted_subword(%r) raised %r" % (full, e))
                        if got != full[:n]:
                            return ("I3.prefix", "initial_accepted_subword(%r) = %r, model %r" % (full, got, full[:n]))
        return None

    # ------------------------------------------------------------------ shrinking
    def simplify_op(self, op):
        """Candidate simpler versions of one op (argument shrinking)."""
        out = []
        if op.get("plan") and op["plan"].get("kind") is None and \
                (op["plan"].get("chunks") != [65536] or op["plan"].get("bufsize") != 8192):
            o = dict(op)
            o["plan"] = {"kind": None, "chunks": [65536], "bufsize": 8192}
            out.append(o)
        if op["op"] == "add_edges_list" and len(op["ls"]) > 1:
            for i in range(len(op["ls"])):
                o = dict(op)
                o["ls"] = op["ls"][:i] + op["ls"][i + 1:]
                out.append(o)
        if op["op"] in ("ctor_label", "ctor_out") and op.get("content"):
            c = op["content"]
            for i in range(len(c)):
                if c[i][1]:
                    for j in range(len(c[i][1])):
                        o = dict(op)
                        o["content"] = [list(x) for x in c]
                        o["content"][i] = [c[i][0], c[i][1][:j] + c[i][1][j + 1:]]
                        out.append(o)
        if op["op"] in ("q_follow", "q_accepts", "q_prefix") and len(op.get("word", [])) > 1:
            o = dict(op)
            o["word"] = op["word"][:-1]
            out.append(o)
        if op["op"] in ("q_enum", "q_fixed") and op.get("L", 0) > 0:
            o = dict(op)
            o["L"] = op["L"] - 1
            out.append(o)
        if op["op"] in ("add_vertices", "delete_vertices") and len(op["vs"]) > 1:
            for i in range(len(op["vs"])):
                o = dict(op)
                o["vs"] = op["vs"][:i] + op["vs"][i + 1:]
                out.append(o)
        return out


def _hashable(x):
    try:
        hash(x)
        return True
    except TypeError:
        return False


def _short(x):
    s = repr(x)
    return s if len(s) <= 160 else s[:157] + "..."


def factory():
    return Engine()
