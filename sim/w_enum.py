"""Engine W-ENUM: automaton-driven enumeration with caller-supplied memo dicts (C06).

Handles: automata (W-FSA handles, with their W-FSA histories), representations and
memo dicts.  Real code: Representation.automaton_accepted/_automaton_accepted/
freely_reduced_elements/free_words_*, the Projective/Hyperbolic wrappers, and all of
W-FSA's real code.  Reference model: a path enumerator over the set-based automaton
model and a dict name -> exact integer matrix.

The automaton invariants of W-FSA (I1...) are deliberately *not* evaluated here: an
automaton whose views have drifted apart makes enumeration (which walks the out/in
views) disagree with the language the model accepts, and that is an observable C06
failure.
"""
from collections import Counter

import numpy as np

from . import w_fsa
from .core import viol, h64, canon

NAME = "W-ENUM"

RULE = ("One evaluation = one simulated run: a seeded history of 6-40 operations on automata "
        "(all W-FSA constructions/mutations/derivations, loads through the simulated disk), "
        "representations (creation, generator re-assignment) and caller-owned memo dicts, "
        "interleaved with automaton_accepted / freely_reduced_elements / free_words calls in every "
        "option combination; each enumeration result is compared with an exact path enumerator. "
        "Non-trivial = the run contains an enumeration that (a) reuses a memo filled by an earlier "
        "call, or (b) runs on an automaton that was mutated or derived earlier in the run.  Distinct = "
        "distinct hash of the sequence of (operation kind, relation to the previously touched handle).")

COMPONENTS = {"real": ["geometry_tools.representation (automaton_accepted, _automaton_accepted, "
                       "freely_reduced_elements, free_words_*, elements, _word_value, _set_generator)",
                       "geometry_tools.projective.ProjectiveRepresentation / Transformation wrapping",
                       "geometry_tools.hyperbolic.HyperbolicRepresentation / Isometry wrapping",
                       "geometry_tools.automata.fsa / gap_parse / kbmag_utils", "numpy", "CPython io stack"],
              "stub": ["raw file layer under builtins.open (simulated disk)"]}
ASSUMPTIONS = ["memo dicts are reused only inside one option class (representation version, automaton "
               "version, maxlen, with_words, direction, edge_words): the docstring promises no more",
               "generator images are integer unimodular matrices so that images of words are exact; "
               "enumerations whose norm bound exceeds 1e11 are not issued",
               "only deterministic automata with uniquely decodable label sets are generated"]

GENS4 = ["a", "b", "c", "d"]
GENS6 = ["a", "b", "c", "d", "e", "f"]
MULTI = ["ab", "ba", "cc", "dd"]


def unimodular(rng, n, cplx):
    """random product of elementary matrices and its exact inverse (nested int lists)"""
    M = [[1 if i == j else 0 for j in range(n)] for i in range(n)]
    Mi = [[1 if i == j else 0 for j in range(n)] for i in range(n)]
    if n == 1:
        s = rng.choice([1, -1])
        return [[s]], [[s]]
    for _ in range(rng.randint(1, 3)):
        i, j = rng.sample(range(n), 2)
        k = rng.choice([1, -1, 1, -1, 2])
        if cplx and rng.random() < 0.5:
            k = k * 1j
        # M <- M * E_ij(k) (column op), Mi <- E_ij(-k) * Mi (row op)
        for r in range(n):
            M[r][j] = M[r][j] + k * M[r][i]
        for c in range(n):
            Mi[i][c] = Mi[i][c] - k * Mi[j][c]
    if rng.random() < 0.3:
        i = rng.randrange(n)
        for c in range(n):
            M[c][i] = -M[c][i]
            Mi[i][c] = -Mi[i][c]
    return M, Mi


def enc(M):
    return [[[int(x.real), int(x.imag)] if isinstance(x, complex) else int(x) for x in row] for row in M]


def dec(M):
    out = np.empty((len(M), len(M)), dtype=object)
    for i, row in enumerate(M):
        for j, x in enumerate(row):
            out[i, j] = complex(x[0], x[1]) if isinstance(x, list) else int(x)
    return out


def is_complex(M):
    return any(isinstance(x, list) for row in M for x in row)


def norm_inf(Mo):
    return max(sum(abs(x) for x in row) for row in Mo.tolist())


class RepHandle:
    __slots__ = ("id", "real", "gens", "n", "cplx", "kind", "version", "single_only")

    def __init__(self, rid, real, gens, n, cplx, kind):
        self.id = rid
        self.real = real
        self.gens = gens          # name -> object-dtype exact matrix (includes inverse names)
        self.n = n
        self.cplx = cplx
        self.kind = kind
        self.version = 0
        self.single_only = all(len(g) == 1 for g in gens)


class World(w_fsa.World):
    def __init__(self, cfg, prop):
        super().__init__(cfg, prop)
        self.reps = {}
        self.memos = {}          # id -> (dict object, class tuple, nfills)
        self.fsa_version = Counter()
        self.start_version = Counter()     # bumped only by changes of the start list
        self.touched_fsa = set()  # automata mutated or derived in this run
        self._nt = False

    # W-FSA's notion of a non-trivial run does not apply here (see RULE): ignore its writes
    @property
    def nontrivial(self):
        return self._nt

    @nontrivial.setter
    def nontrivial(self, value):
        pass


class Engine(w_fsa.Engine):
    name = NAME

    def __init__(self):
        super().__init__()
        from geometry_tools import representation, projective, hyperbolic
        self.representation = representation
        self.projective = projective
        self.hyperbolic = hyperbolic

    # ------------------------------------------------------------------ config
    def gen_config(self, rng, prop, tier):
        cfg = super().gen_config(rng, "C09", tier)
        cfg["engine"] = NAME
        if cfg["alpha"] == "int":
            cfg["alpha"] = "single"     # labels are words in the generators here
        cfg["steps"] = rng.choice([6, 10, 16, 25, 40, 60] if tier == "thorough" else [6, 10, 16, 25, 40])
        cfg["i3"] = False
        cfg["i1"] = False
        cfg["faulty"] = rng.random() < 0.25
        if cfg["faulty"]:
            cfg["fault_kinds"] = sorted(rng.sample(["open_error", "read_error"], rng.randint(1, 2)))
        else:
            cfg["fault_kinds"] = []
        cfg["table_pool"] = "letters"
        cfg["nlabels"] = rng.randint(1, 4)
        cfg["nverts"] = rng.randint(1, 8)
        cfg["dim"] = rng.choice([1, 2, 2, 3, 3, 4])
        cfg["cplx"] = rng.random() < 0.2
        cfg["repkind"] = rng.choice(["plain", "plain", "plain", "projective", "hyperbolic"])
        cfg["gens"] = GENS6 if (cfg["builtin_rate"] > 0 and rng.random() < 0.5) else GENS4
        cfg["multi"] = cfg["alpha"] == "double" and rng.random() < 0.7
        cfg["Lmax"] = rng.randint(1, 6 if tier == "thorough" else 5)
        w = {"construct": 10, "mutate": 14, "derive": 6, "io": 5, "reject": 1,
             "rep": 8, "enum": 50, "free": 6}
        style = rng.choice(["flat", "mutate", "enum", "memo"])
        if style in w:
            w[style] *= 3
        cfg["weights"] = w
        cfg["style"] = style
        cfg["memo_rate"] = 0.85 if style == "memo" else rng.choice([0.2, 0.5])
        cfg["scribble"] = rng.random() < 0.3
        return cfg

    def new_world(self, cfg, prop):
        self._isolate()
        return World(cfg, prop)

    def close(self, world):
        world.reps.clear()
        world.memos.clear()
        super().close(world)

    def op_property(self, world, op, prop):
        return "C06"

    def state_hash(self, world):
        base = super().state_hash(world)
        reps = [(r.id, r.version, sorted((g, str(m.tolist())) for g, m in r.gens.items()))
                for r in world.reps.values()]
        memos = [(m, list(map(str, v[1])), v[2]) for m, v in sorted(world.memos.items())]
        return h64(canon([base, reps, memos]))

    def _gen_table(self, rng, cfg):
        t = super()._gen_table(rng, cfg)
        pool = ["a", "A", "b", "B", "c", "C", "d", "D"]
        t["names"] = rng.sample(pool, min(len(t["names"]), len(pool)))
        t["transitions"] = [row[:len(t["names"])] for row in t["transitions"]]
        return t

    # ------------------------------------------------------------------ generation
    def gen_op(self, rng, world):
        cfg = world.cfg
        if not world.reps:
            op = self._gen_rep(rng, world, new=True)
            op["caller"] = rng.randrange(cfg["callers"])
            return op
        live = world.live()
        w = dict(cfg["weights"])
        if not live:
            group = rng.choice(["construct", "construct", "io"])
        else:
            if len(live) >= cfg["max_handles"]:
                w["construct"] = 1
                w["derive"] = 1
                w["io"] = 1
                if rng.random() < 0.15:
                    h = rng.choice(live)
                    return {"op": "drop", "h": h.id, "caller": rng.randrange(cfg["callers"])}
            groups = sorted(w)
            group = rng.choices(groups, [w[g] for g in groups])[0]
        gen = getattr(self, "_gen_" + group)
        for _ in range(6):
            op = gen(rng, world)
            if op is not None:
                op["caller"] = rng.randrange(cfg["callers"])
                return op
        op = self._gen_construct(rng, world)
        op["caller"] = rng.randrange(cfg["callers"])
        return op

    def _gen_query(self, rng, world):
        return None

    def _gen_rep(self, rng, world, new=False):
        cfg = world.cfg
        n, cplx = cfg["dim"], cfg["cplx"]
        if new or (len(world.reps) < 3 and rng.random() < 0.3):
            names = list(cfg["gens"]) + (MULTI if cfg["multi"] else [])
            mats = {}
            dtypes = {}
            for g in names:
                M, Mi = unimodular(rng, n, cplx)
                mats[g] = [enc(M), enc(Mi)]
                dtypes[g] = self._pick_dtype(rng, mats[g][0])
            kind = cfg["repkind"] if not cplx else "plain"
            if kind == "hyperbolic" and n < 2:
                kind = "plain"
            return {"op": "rep_new", "rep": "r%d" % (len(world.reps) + 1 + world.steps_done * 10),
                    "kind": kind, "n": n, "mats": mats, "dtypes": dtypes}
        r = rng.choice(sorted(world.reps))
        rh = world.reps[r]
        g = rng.choice(sorted(x for x in rh.gens if x == x.lower()))
        M, Mi = unimodular(rng, rh.n, rh.cplx)
        via_inverse = rng.random() < 0.25
        m = [enc(M), enc(Mi)]
        return {"op": "assign", "rep": r, "g": g, "mat": m, "via_inverse": via_inverse,
                "dtype": self._pick_dtype(rng, m[1] if via_inverse else m[0])}

    @staticmethod
    def _pick_dtype(rng, encoded):
        """generators of one representation may have different dtypes (exact integer, real, complex)"""
        if is_complex(encoded):
            return "complex128"
        return rng.choice(["float64", "float64", "int64", "complex128"])

    def _labels_ok(self, rh, h, edge_words):
        for l in h.labels():
            if edge_words:
                if not all(ch in rh.gens for ch in l):
                    return False
            elif l not in rh.gens:
                return False
        return True

    def _norm_bound(self, rh, h, edge_words, L):
        worst = 1.0
        for l in h.labels():
            if edge_words:
                nb = 1.0
                for ch in l:
                    nb *= max(1.0, float(norm_inf(rh.gens[ch])))
            else:
                nb = max(1.0, float(norm_inf(rh.gens[l])))
            worst = max(worst, nb)
        return worst ** L

    def _gen_enum_for_memo(self, rng, world):
        """an enumeration crafted to fit a memo that is still valid (same option class)"""
        cfg = world.cfg
        valid = []
        for m, v in sorted(world.memos.items()):
            rid, rver, hid, hver, maxlen, with_words, mode, edge_words = v[1]
            if rid in world.reps and world.reps[rid].version == rver and hid in world.handles \
                    and hver == (world.fsa_version[hid], world.start_version[hid] if mode == "end" else 0):
                valid.append(m)
        if not valid:
            return None
        m = rng.choice(valid)
        rid, rver, hid, hver, maxlen, with_words, mode, edge_words = world.memos[m][1]
        h, rh = world.handles[hid], world.reps[rid]
        Vl = sorted(h.V, key=w_fsa.vkey)
        if not Vl or not self._labels_ok(rh, h, edge_words):
            return None
        L = rng.randint(0, cfg["Lmax"])
        deg = max([1] + [sum(1 for e in h.E if e[0] == v) for v in h.V] +
                  [sum(1 for e in h.E if e[1] == v) for v in h.V])
        while L > 0 and (deg ** L > 1500 or self._norm_bound(rh, h, edge_words, L) > 1e11):
            L -= 1
        if h.big:
            L = min(L, 3)
        state = rng.choice(Vl)
        if mode == "start" and h.S and h.S[0] in h.V and rng.random() < 0.3:
            mode, state = "default", None
        return {"op": "enum", "rep": rid, "h": hid, "L": L, "maxlen": maxlen, "with_words": with_words,
                "mode": mode, "state": state, "edge_words": edge_words, "memo": m}

    def _gen_enum(self, rng, world):
        cfg = world.cfg
        if world.memos and rng.random() < cfg["memo_rate"] * 0.6:
            op = self._gen_enum_for_memo(rng, world)
            if op is not None:
                return op
        h = self._pick(rng, world, small=False)
        if h is None:
            return None
        rh = world.reps[rng.choice(sorted(world.reps))]
        edge_words = rng.random() < 0.65
        if not self._labels_ok(rh, h, edge_words):
            edge_words = not edge_words
            if not self._labels_ok(rh, h, edge_words):
                return None
        Vl = sorted(h.V, key=w_fsa.vkey)
        if not Vl:
            return None
        L = rng.randint(0, cfg["Lmax"])
        deg = max([1] + [sum(1 for e in h.E if e[0] == v) for v in h.V])
        indeg = max([1] + [sum(1 for e in h.E if e[1] == v) for v in h.V])
        while L > 0 and (max(deg, indeg) ** L > 1500 or self._norm_bound(rh, h, edge_words, L) > 1e11):
            L -= 1
        if h.big:
            L = min(L, 3)
        mode = rng.choice(["default", "start", "start", "end", "end"])
        state = None
        if mode == "default":
            if not (h.S and h.S[0] in h.V):
                mode = "start"
        if mode in ("start", "end"):
            state = rng.choice(Vl)
            if mode == "end" and rng.random() < 0.4 and any(s in h.V for s in h.S):
                state = rng.choice([s for s in h.S if s in h.V])
        op = {"op": "enum", "rep": rh.id, "h": h.id, "L": L, "maxlen": rng.random() < 0.6,
              "with_words": rng.random() < 0.7, "mode": mode, "state": state,
              "edge_words": edge_words, "memo": None}
        if rng.random() < cfg["memo_rate"]:
            cls = self._memo_class(world, op)
            compat = [m for m, v in sorted(world.memos.items()) if v[1] == cls]
            if compat and rng.random() < 0.75:
                op["memo"] = rng.choice(compat)
            else:
                op["memo"] = "m%d" % (len(world.memos) + 1 + world.steps_done * 10)
        return op

    def _gen_free(self, rng, world):
        rh = world.reps[rng.choice(sorted(world.reps))]
        if not rh.single_only:
            return None
        ngen = len([g for g in rh.gens if g == g.lower()])
        L = rng.randint(0, 4)
        while L > 0 and (2 * ngen) ** L > 1500:
            L -= 1
        kind = rng.choice(["elements", "elements", "of_length", "less_than"])
        return {"op": "free", "rep": rh.id, "kind": kind, "L": L, "maxlen": rng.random() < 0.6,
                "with_words": rng.random() < 0.7}

    def _memo_class(self, world, op):
        rh = world.reps[op["rep"]]
        mode = "end" if op["mode"] == "end" else "start"
        # entries (length, state) of a forward walk do not depend on the start list; those of a
        # backward walk (end_state) do
        sv = world.start_version[op["h"]] if mode == "end" else 0
        return (rh.id, rh.version, op["h"], (world.fsa_version[op["h"]], sv), bool(op["maxlen"]),
                bool(op["with_words"]), mode, bool(op["edge_words"]))

    # ------------------------------------------------------------------ interpreter
    def apply(self, world, op):
        if world.cfg.get("vkind") == "tuple":
            op = self._devertex(op)
        k = op["op"]
        if k in ("rep_new", "assign", "enum", "free"):
            world.steps_done += 1
            vs = []
            world.last_relation = k
            outcome = getattr(self, "_do_" + k)(world, op, vs)
            return outcome, vs
        outcome, vs = super().apply(world, op)
        if not outcome.startswith("skipped"):
            if k in ("set_starts", "starts_inplace"):
                world.start_version[op["h"]] += 1
                world.touched_fsa.add(op["h"])
            elif k in w_fsa.MUTATE:
                world.fsa_version[op["h"]] += 1
                world.touched_fsa.add(op["h"])
            if k in w_fsa.DERIVE and op.get("new") in world.handles:
                world.touched_fsa.add(op["new"])
        # W-FSA's own oracles report under C09/C10; they stay as observations of other properties
        return outcome, vs

    def _check_all(self, world, op, touched, vs):
        return      # see module docstring

    def _rep_class(self, kind):
        if kind == "projective":
            return self.projective.ProjectiveRepresentation
        if kind == "hyperbolic":
            return self.hyperbolic.HyperbolicRepresentation
        return self.representation.Representation

    def _wrap(self, kind, M):
        if kind == "projective":
            return self.projective.Transformation(M, column_vectors=True)
        if kind == "hyperbolic":
            return self.hyperbolic.Isometry(M, column_vectors=True)
        return M

    def _unwrap_array(self, kind, res):
        if kind in ("projective", "hyperbolic"):
            return np.asarray(res.matrix).swapaxes(-1, -2)
        return np.asarray(res)

    @staticmethod
    def _np(Mo, cplx, dtype=None):
        if dtype is None:
            dtype = "complex128" if cplx else "float64"
        if dtype != "complex128" and any(isinstance(x, complex) and x.imag != 0 for x in Mo.reshape(-1).tolist()):
            dtype = "complex128"
        if dtype == "int64":
            return np.array([[int(complex(x).real) for x in row] for row in Mo.tolist()], dtype=np.int64)
        if dtype == "float64":
            return np.array([[complex(x).real for x in row] for row in Mo.tolist()], dtype=np.float64)
        return np.array(Mo.tolist(), dtype=np.complex128)

    def _do_rep_new(self, world, op, vs):
        kind, n = op["kind"], int(op["n"])
        cplx = any(is_complex(m[0]) for m in op["mats"].values())
        try:
            rep = self._rep_class(kind)()
            gens = {}
            for g in sorted(op["mats"]):
                M, Mi = dec(op["mats"][g][0]), dec(op["mats"][g][1])
                rep[g] = self._wrap(kind, self._np(M, cplx, (op.get("dtypes") or {}).get(g)))
                gens[g] = M
                gens[g.upper()] = Mi
        except Exception as e:
            vs.append(viol("C06", "E.rep.raised", "building a representation raised %r" % (e,)))
            return "raised:" + type(e).__name__
        world.reps[op["rep"]] = RepHandle(op["rep"], rep, gens, n, cplx, kind)
        return "ok"

    def _do_assign(self, world, op, vs):
        if op["rep"] not in world.reps:
            return "skipped:no-rep"
        rh = world.reps[op["rep"]]
        g = op["g"]
        M, Mi = dec(op["mat"][0]), dec(op["mat"][1])
        if M.shape[0] != rh.n or g.upper() not in rh.gens:
            return "skipped:shape"
        try:
            if op.get("via_inverse"):
                rh.real[g.upper()] = self._wrap(rh.kind, self._np(Mi, rh.cplx, op.get("dtype")))
            else:
                rh.real[g] = self._wrap(rh.kind, self._np(M, rh.cplx, op.get("dtype")))
        except Exception as e:
            vs.append(viol("C06", "E.assign.raised", "re-assigning a generator raised %r" % (e,)))
            return "raised:" + type(e).__name__
        rh.gens[g] = M
        rh.gens[g.upper()] = Mi
        rh.version += 1
        world.stats["probe.generator_reassigned"] += 1
        return "ok"

    # ---- the oracle
    def _image(self, rh, labels, edge_words):
        M = None
        for l in labels:
            parts = list(l) if edge_words else [l]
            for ch in parts:
                M = rh.gens[ch] if M is None else M.dot(rh.gens[ch])
        if M is None:
            M = np.empty((rh.n, rh.n), dtype=object)
            for i in range(rh.n):
                for j in range(rh.n):
                    M[i, j] = 1 if i == j else 0
        return M

    def _paths(self, h, mode, state, L, maxlen):
        """list of label tuples the call must return (one per accepting path)"""
        adj = h.adj()
        if mode == "end":
            radj = {v: [] for v in h.V}
            for (t, hd, l) in h.E:
                radj[hd].append((l, t))
            level = [((), state)]
            levels = [level]
            for _ in range(L):
                level = [((l,) + p, t) for p, v in level for l, t in radj[v]]
                levels.append(level)
            S = set(h.S)
            keep = (lambda lv: [p for p, v in lv if v in S])
        else:
            levels = self._lang(adj, state, L)
            keep = (lambda lv: [p for p, v in lv])
        if maxlen:
            out = []
            for lv in levels:
                out.extend(keep(lv))
            return out
        return keep(levels[L])

    def _do_enum(self, world, op, vs):
        if op["rep"] not in world.reps or op["h"] not in world.handles:
            return "skipped:no-handle"
        rh, h = world.reps[op["rep"]], world.handles[op["h"]]
        L, maxlen, with_words = int(op["L"]), bool(op["maxlen"]), bool(op["with_words"])
        mode, state, edge_words = op["mode"], op["state"], bool(op["edge_words"])
        if not self._labels_ok(rh, h, edge_words):
            return "skipped:labels"
        if mode == "default":
            if not (h.S and h.S[0] in h.V):
                return "skipped:no-default-start"
            eff = h.S[0]
        else:
            if state not in h.V:
                return "skipped:absent"
            eff = state
        deg = max([1] + [sum(1 for e in h.E if e[0] == v) for v in h.V] +
                  [sum(1 for e in h.E if e[1] == v) for v in h.V])
        if deg ** L > 6000:
            return "skipped:too-big"
        bound = self._norm_bound(rh, h, edge_words, L)
        if bound > 1e11:
            return "skipped:norm-bound"
        memo = None
        reused = False
        if op.get("memo") is not None:
            cls = self._memo_class(world, op)
            mid = op["memo"]
            if mid in world.memos:
                if world.memos[mid][1] != cls:
                    return "skipped:memo-class"
                memo = world.memos[mid][0]
                reused = len(memo) > 0
            else:
                memo = {}
                world.memos[mid] = [memo, cls, 0]
        kw = {"maxlen": maxlen, "with_words": with_words, "edge_words": edge_words}
        if mode == "start":
            kw["start_state"] = state
        elif mode == "end":
            kw["end_state"] = state

        def call(m):
            k2 = dict(kw)
            if m is not None:
                k2["precomputed"] = m
            return rh.real.automaton_accepted(h.real, L, **k2)

        if h.id in world.touched_fsa:
            world._nt = True
            world.stats["probe.enum_on_history_automaton"] += 1
        if reused:
            world._nt = True
            world.stats["probe.memo_reused_nonempty"] += 1
            if (L, eff) in memo:
                world.stats["probe.memo_hit_top_level"] += 1
        if mode == "end":
            world.stats["probe.end_state_mode"] += 1
            if not any(e[1] == eff for e in h.E):
                world.stats["probe.end_state_without_incoming_edges"] += 1
        try:
            res = call(memo)
        except Exception as e:
            vs.append(viol("C06", "E.raised", "automaton_accepted(%s) raised %r" % (_desc(op), e)))
            return "raised:" + type(e).__name__
        if memo is not None:
            world.memos[op["memo"]][2] = len(memo)
        want_paths = self._paths(h, "end" if mode == "end" else "start", eff, L, maxlen)
        bad = self._compare(rh, res, want_paths, with_words, edge_words, bound)
        if bad is None and mode != "end":
            bad = self._vs_fsa(h, res, with_words, L, maxlen, eff, mode)
        if bad is None and memo is None and world.cfg.get("scribble"):
            # the caller overwrites, in place, the arrays it was handed by a memo-less call; later
            # enumerations must not be affected
            try:
                arr0 = res[0] if with_words else res
                if isinstance(arr0, np.ndarray) and arr0.flags.writeable and arr0.size:
                    arr0[...] = 7
                    world.stats["probe.caller_scribbled_on_result"] += 1
                if with_words and isinstance(res[1], list) and res[1]:
                    res[1].append("#scribble#")
            except Exception:
                pass
        if bad is not None:
            inv, detail = bad
            if reused:
                # attribute to the memo if a memo-less call is right
                try:
                    res2 = call(None)
                    if self._compare(rh, res2, want_paths, with_words, edge_words, bound) is None and \
                            (mode == "end" or self._vs_fsa(h, res2, with_words, L, maxlen, eff, mode) is None):
                        inv = "E.memo"
                        detail = "with a reused memo: " + detail + " (a memo-less call is right)"
                except Exception:
                    pass
            vs.append(viol("C06", inv, "automaton_accepted(%s): %s" % (_desc(op), detail)))
            return "wrong"
        return "ok"

    def _compare(self, rh, res, want_paths, with_words, edge_words, bound):
        tol = max(1e-6, 1e-13 * bound)
        if with_words:
            try:
                mats, words = res
                words = list(words)
            except Exception as e:
                return ("E.len", "with_words=True did not return (matrices, words): %r" % (e,))
        else:
            mats, words = res, None
        try:
            arr = self._unwrap_array(rh.kind, mats)
        except Exception as e:
            return ("E.mats", "result is not an array of matrices: %r" % (e,))
        if arr.ndim != 3 or arr.shape[1:] != (rh.n, rh.n):
            if not (arr.size == 0 and len(want_paths) == 0):
                return ("E.mats", "result has shape %r, expected (k, %d, %d)" % (arr.shape, rh.n, rh.n))
        k = arr.shape[0] if arr.ndim == 3 else 0
        if words is not None:
            if k != len(words):
                return ("E.len", "%d matrices for %d words" % (k, len(words)))
            want_words = Counter("".join(p) for p in want_paths)
            got_words = Counter(words)
            if got_words != want_words:
                return ("E.words", "returned words are not the accepted words, once per accepting path: "
                        "missing %r extra %r" % (sorted((want_words - got_words).elements())[:4],
                                                 sorted((got_words - want_words).elements())[:4]))
            # matrix i must be the image of word i.  Two different label paths may spell the same word
            # (labels of different lengths: a.bc = ab.c), so per word the multiset of returned matrices
            # must equal the multiset of the images of the paths spelling it
            want_by = {}
            for p in want_paths:
                want_by.setdefault("".join(p), Counter())[_key(self._image(rh, p, edge_words))] += 1
            got_by = {}
            for i, w in enumerate(words):
                r = np.round(arr[i].real) + 1j * np.round(arr[i].imag)
                if not np.all(np.abs(arr[i] - r) <= tol):
                    some = next(iter(want_by[w]))
                    return ("E.image", "matrix %d (word %r) is not the image of the word: got %s" % (
                        i, w, np.round(arr[i], 6).tolist()))
                got_by.setdefault(w, Counter())[_key(r)] += 1
            for w in want_by:
                if got_by.get(w) != want_by[w]:
                    p0 = next(p for p in want_paths if "".join(p) == w)
                    return ("E.image", "the matrices returned for word %r are not the images of the accepting "
                            "paths spelling it: e.g. expected %s" % (w, self._image(rh, p0, edge_words).tolist()))
            return None
        if k != len(want_paths):
            return ("E.mats", "%d matrices returned, %d accepting paths" % (k, len(want_paths)))
        want = Counter()
        for p in want_paths:
            want[_key(self._image(rh, p, edge_words))] += 1
        got = Counter()
        for i in range(k):
            r = np.round(arr[i].real) + 1j * np.round(arr[i].imag)
            if not np.all(np.abs(arr[i] - r) <= tol):
                return ("E.mats", "matrix %d is not (close to) an integer matrix: %s" % (i, arr[i].tolist()))
            got[_key(r)] += 1
        if got != want:
            return ("E.mats", "the multiset of matrices differs from the images of the accepted words "
                    "(%d matrices differ)" % sum(((got - want) + (want - got)).values()))
        return None

    def _vs_fsa(self, h, res, with_words, L, maxlen, eff, mode):
        if not with_words:
            return None
        words = Counter(res[1])
        try:
            if maxlen:
                ref = Counter(h.real.enumerate_words(L, start_vertex=eff))
            else:
                ref = Counter(h.real.enumerate_fixed_length_paths(L, start_vertex=eff))
        except Exception as e:
            return ("E.vs_fsa", "the automaton's own enumeration raised %r" % (e,))
        if ref != words:
            return ("E.vs_fsa", "words differ from the automaton's own enumeration: missing %r extra %r" % (
                sorted((ref - words).elements())[:4], sorted((words - ref).elements())[:4]))
        return None

    def _do_free(self, world, op, vs):
        if op["rep"] not in world.reps:
            return "skipped:no-rep"
        rh = world.reps[op["rep"]]
        if not rh.single_only:
            return "skipped:multichar"
        L, maxlen, with_words = int(op["L"]), bool(op["maxlen"]), bool(op["with_words"])
        names = sorted(rh.gens)
        if (len(names)) ** L > 6000:
            return "skipped:too-big"

        def reduced(n):
            level = [()]
            levels = [level]
            for _ in range(n):
                level = [p + (g,) for p in level for g in names if not p or g != p[-1].swapcase()]
                levels.append(level)
            return levels
        kind = op["kind"]
        try:
            if kind == "elements":
                res = rh.real.freely_reduced_elements(L, maxlen=maxlen, with_words=with_words)
            elif kind == "of_length":
                res = list(rh.real.free_words_of_length(L))
            else:
                res = list(rh.real.free_words_less_than(L))
        except Exception as e:
            vs.append(viol("C06", "E.free.raised", "%s(%d) raised %r" % (kind, L, e)))
            return "raised:" + type(e).__name__
        lv = reduced(L)
        if kind == "elements":
            paths = [p for l in lv for p in l] if maxlen else lv[L]
            bound = max([1.0] + [float(norm_inf(m)) for m in rh.gens.values()]) ** L
            if bound > 1e11:
                return "skipped:norm-bound"
            bad = self._compare(rh, res, paths, with_words, True, bound)
            if bad:
                vs.append(viol("C06", "E.free", "freely_reduced_elements(%d, maxlen=%s, with_words=%s): %s" % (
                    L, maxlen, with_words, bad[1])))
                return "wrong"
            return "ok"
        got = Counter(res)
        if kind == "of_length":
            want = Counter("".join(p) for p in lv[L])
            if got != want:
                vs.append(viol("C06", "E.free", "free_words_of_length(%d): missing %r extra %r" % (
                    L, sorted((want - got).elements())[:4], sorted((got - want).elements())[:4])))
                return "wrong"
            return "ok"
        # free_words_less_than: docstring says inclusive, code is exclusive; accept either bound,
        # require each freely reduced word exactly once
        want_ex = Counter("".join(p) for l in lv[:L] for p in l)
        want_in = Counter("".join(p) for l in lv for p in l)
        if got != want_ex and got != want_in:
            vs.append(viol("C06", "E.free", "free_words_less_than(%d) is neither the reduced words of "
                           "length < %d nor <= %d, each once" % (L, L, L)))
            return "wrong"
        return "ok"

    def simplify_op(self, op):
        out = super().simplify_op(op)
        if op["op"] == "enum":
            if op.get("L", 0) > 0:
                o = dict(op)
                o["L"] = op["L"] - 1
                out.append(o)
            if op.get("memo") is not None:
                o = dict(op)
                o["memo"] = None
                out.append(o)
        if op["op"] == "free" and op.get("L", 0) > 0:
            o = dict(op)
            o["L"] = op["L"] - 1
            out.append(o)
        return out


def _key(M):
    return tuple((int(round(complex(x).real)), int(round(complex(x).imag)))
                 for x in np.asarray(M).reshape(-1).tolist())


def _desc(op):
    return ", ".join("%s=%r" % (k, op[k]) for k in ("L", "maxlen", "with_words", "mode", "state",
                                                     "edge_words", "memo"))


def factory():
    return Engine()
