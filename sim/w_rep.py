"""Engine W-REP: generator assignment / re-assignment / derivation orders across
representation handles (C05).

Handles: up to 5 representations related by "derived-from".  Real code:
representation.Representation (+ Projective/Hyperbolic wrappers), utils.words,
lie.hom.gln_adjoint/sln_adjoint.  No stub.  Reference model: dict name -> matrix with
the inverse stored under the case-swapped name, evaluated by a left-to-right product;
a derived handle's model is computed from its parent's model *at derivation time* and
evolves independently afterwards (snapshot independence).

What is decided here is the history / aliasing clause of C05 ("all orders of assigning
and re-assigning generators", derived representations sharing their parent's arrays);
the algebraic laws are evaluated at the states the histories reach, as the oracle.
"""
import math
from collections import Counter

import numpy as np

from .core import viol, h64, canon

NAME = "W-REP"

RULE = ("One evaluation = one simulated run: a seeded history of 6-40 operations on up to 5 related "
        "representation handles: assign / re-assign a generator (directly or through its inverse name), "
        "derive (copy, conjugate, dual, compose with a homomorphism, tensor product, symmetric square, "
        "gln/sln adjoint, subgroup, astype, projective/hyperbolic wrapping), set relations, observe "
        "(rep[w], elements, element(parse_simple=False), differential, cocycle/coboundary); after every "
        "step every live handle is compared with its dict-and-product model on all words up to length 2 and "
        "on sampled words up to length 10.  Non-trivial = a generator was (re-)assigned on a handle while a "
        "handle derived from it (or its parent) was alive and then re-checked.  Distinct = distinct hash of "
        "the sequence of (operation kind + derivation kind, relation to the previously touched handle).")

COMPONENTS = {"real": ["geometry_tools.representation.Representation", "geometry_tools.utils.words",
                       "geometry_tools.lie.hom / lie.core (gln_adjoint, sln_adjoint)",
                       "geometry_tools.projective.ProjectiveRepresentation",
                       "geometry_tools.hyperbolic.HyperbolicRepresentation", "numpy"],
              "stub": []}
ASSUMPTIONS = ["comparison tolerance 1e-9 * (1 + product of the infinity-norms of the letters' images)",
               "the symmetric square is checked up to change of basis (dimension and character "
               "tr Sym2(g) = (tr(g)^2 + tr(g^2))/2 on all probe words); tensor product and adjoints in the "
               "standard (Kronecker / row-major E_ij) bases",
               "multi-character generator names are evaluated only through element(word, parse_simple=False) "
               "and elements([...]) on representations constructed with parse_simple=False",
               "a rejected assignment (mixed-case name, reserved character, non-square, wrong size) retires the handle"]

SIMPLE = ["a", "b", "c", "d"]
MULTI = ["x1", "gen", "s0", "tt"]
MULTI_ODD = ["2y", "_z", "s0", "tt"]     # legal names whose first character is not a letter (round h)
EXTRA = ["ab", "ba", "cc"]        # multi-character names living next to single-character ones
FAMILIES = ["unimodular", "unimodular", "unimodular_int", "gaussian", "float", "sl2z"]


def inv_name(g):
    return g.upper() if g == g.lower() else g.lower()


def inv_formal(g):
    """utils.words.formal_inverse applied to a name: letters reversed and case-swapped ('x1' -> '1X')"""
    return "".join(c.swapcase() for c in reversed(g))


# --------------------------------------------------------------------------- matrices

def _elem(rng, n, cplx):
    M = np.eye(n, dtype=np.complex128)
    if n == 1:
        return M * rng.choice([1, -1])
    for _ in range(rng.randint(1, 3)):
        i, j = rng.sample(range(n), 2)
        k = rng.choice([1, -1, 1, -1, 2])
        if cplx and rng.random() < 0.5:
            k = k * 1j
        E = np.eye(n, dtype=np.complex128)
        E[i, j] = k
        M = M @ E
    if rng.random() < 0.3:
        i = rng.randrange(n)
        M[:, i] = -M[:, i]
    return M


def gen_matrix(rng, family, n):
    if family in ("unimodular", "unimodular_int"):
        return _elem(rng, n, False)
    if family == "gaussian":
        return _elem(rng, n, True)
    if family == "sl2z":
        return _elem(rng, n, False)
    while True:
        M = np.eye(n) + 0.6 * np.array([[rng.uniform(-1, 1) for _ in range(n)] for _ in range(n)])
        if np.linalg.cond(M) <= 50:
            return M.astype(np.complex128)


def enc(M):
    out = []
    for row in np.asarray(M).tolist():
        r = []
        for x in row:
            x = complex(x)
            if x.imag != 0:
                r.append([x.real, x.imag])
            elif x.real == int(x.real) and abs(x.real) < 1e9:
                r.append(int(x.real))
            else:
                r.append(x.real)
        out.append(r)
    return out


def dec(M):
    return np.array([[complex(x[0], x[1]) if isinstance(x, list) else complex(x) for x in row]
                     for row in M], dtype=np.complex128)


def to_dtype(M, dtype):
    if dtype == "complex128":
        return np.array(M, dtype=np.complex128)
    if dtype == "int64":
        return np.array(np.round(M.real), dtype=np.int64)
    return np.array(M.real, dtype=np.float64)


def ninf(M):
    return float(np.max(np.sum(np.abs(M), axis=-1))) if M.size else 1.0


# --------------------------------------------------------------------------- homs used by compose()

def hom_kron2(M):
    return np.kron(M, M)


def hom_block(M):
    n = M.shape[0]
    out = np.zeros((n + 1, n + 1), dtype=M.dtype)
    out[:n, :n] = M
    out[n, n] = 1
    return out


def hom_invT(M):
    return np.linalg.inv(M).T


HOMS = {"kron2": hom_kron2, "block": hom_block, "invT": hom_invT}
INHERITS_RELATIONS = ("copy", "conjugate", "dual", "compose", "astype", "gln_adjoint", "sln_adjoint",
                      "wrap_projective", "wrap_hyperbolic")


def sym2_char(tr1, tr2):
    return (tr1 * tr1 + tr2) / 2.0


# --------------------------------------------------------------------------- world

class Handle:
    __slots__ = ("id", "real", "gens", "order", "n", "kind", "simple", "dtype", "parent", "how",
                 "relations", "family", "abs_err", "extra", "invf")

    def __init__(self, hid, real, simple, kind="plain", parent=None, how="new", family=None):
        self.id = hid
        self.real = real
        self.gens = {}          # name -> complex128 matrix (both cases)
        self.order = []         # lowercase generator names in first-assignment order
        self.n = None
        self.kind = kind
        self.simple = simple
        self.dtype = None
        self.parent = parent
        self.how = how
        self.relations = []
        self.family = family or hid
        self.abs_err = 0.0      # bound on the absolute error its generators inherited from derivations
        self.extra = {}         # multi-character generators of a single-character representation
        self.invf = inv_name    # how this representation names the inverse of a generator

    def has_complex(self):
        return any(np.any(np.abs(M.imag) > 0) for M in list(self.gens.values()) + list(self.extra.values()))

    def maxnorm(self):
        return max([1.0] + [ninf(M) for M in list(self.gens.values()) + list(self.extra.values())])

    def tol(self, letters, bound, kappa):
        return (1e-8 * (1 + kappa) * (2 + len(letters)) + (1 + len(letters)) * self.abs_err) * bound

    def kappa(self):
        k = 1.0
        for g, M in self.gens.items():
            k = max(k, ninf(M) * ninf(self.gens[self.invf(g)]))
        for g, M in self.extra.items():
            k = max(k, ninf(M) * ninf(self.extra[inv_name(g)]))
        return k

    def value(self, letters):
        M = np.eye(self.n, dtype=np.complex128)
        bound = 1.0
        for g in letters:
            M = M @ self.gens[g]
            bound *= max(1.0, ninf(self.gens[g]))
        return M, bound


class World:
    def __init__(self, cfg, prop):
        self.cfg = cfg
        self.prop = prop
        self.handles = {}
        self.stats = Counter()
        self.last_relation = ""
        self.nontrivial = False
        self.last_touched = None
        self.next_id = 0
        self.steps_done = 0

    def live(self):
        return list(self.handles.values())


class Engine:
    name = NAME

    def __init__(self):
        from geometry_tools import representation, projective, hyperbolic
        from geometry_tools.utils import words
        self.representation = representation
        self.projective = projective
        self.hyperbolic = hyperbolic
        self.words = words
        np.seterr(all="ignore")
        import warnings
        warnings.simplefilter("ignore")
        from .core import library_guard
        self.guard = library_guard()

    # ------------------------------------------------------------------ config
    def gen_config(self, rng, prop, tier):
        family = rng.choice(FAMILIES)
        n = 2 if family == "sl2z" else rng.choice([1, 2, 2, 3, 3, 4, 5])
        cfg = {
            "engine": NAME,
            "steps": rng.choice([6, 10, 16, 25, 40, 60] if tier == "thorough" else [6, 10, 16, 25, 40]),
            "family": family,
            "n": n,
            "ngens": rng.randint(1, 4),
            "multi": rng.random() < 0.2 and family != "sl2z",
            "max_handles": rng.randint(2, 7 if tier == "thorough" else 5),
            "callers": rng.randint(2, 4),
            "maxdim": 30,
            "mixed_dtypes": rng.random() < 0.3,
            "mixed_names": rng.random() < 0.25,
            "invmode": "default",
            "scribble": rng.random() < 0.3,
        }
        # no extra draw (the streams of all existing seeds stay as they were): half of the multi-character runs
        # use names that start with a digit or an underscore
        cfg["oddnames"] = bool(cfg["multi"] and cfg["max_handles"] % 2 == 0)
        if cfg["multi"] and rng.random() < 0.4:
            # a custom inverse-naming map: Representation(invert_gen=utils.words.formal_inverse)
            cfg["invmode"] = "formal"
        w = {"new": 5, "assign": 30, "derive": 25, "observe": 25, "relations": 4, "reject": 2, "drop": 4}
        style = rng.choice(["flat", "assign", "derive", "observe"])
        if style != "flat":
            w[style] *= 3
        cfg["weights"] = w
        cfg["style"] = style
        return cfg

    def new_world(self, cfg, prop):
        self.guard.restore()
        return World(cfg, prop)

    def close(self, world):
        world.handles.clear()

    def op_property(self, world, op, prop):
        return "C05"

    def state_hash(self, world):
        parts = []
        for h in world.handles.values():
            parts.append((h.id, h.kind, h.how, h.parent, h.n, h.dtype, sorted(h.gens), sorted(h.extra),
                          list(h.relations)))
        return h64(canon(parts))

    # ------------------------------------------------------------------ generation
    def _new_id(self, world):
        world.next_id += 1
        return "r%d" % world.next_id

    def _names(self, cfg):
        multi = MULTI_ODD if cfg.get("oddnames") else MULTI
        return (multi if cfg["multi"] else SIMPLE)[:cfg["ngens"]]

    def _pick(self, rng, world, pred=None):
        live = [h for h in world.live() if pred is None or pred(h)]
        if not live:
            return None
        lt = world.last_touched
        if lt in world.handles and rng.random() < 0.5:
            h0 = world.handles[lt]
            rel = [h for h in live if h.id == lt or h.parent == lt or h0.parent == h.id or h.family == h0.family]
            if rel:
                return rng.choice(rel)
        return rng.choice(live)

    def _probe_words(self, rng, cfg, k=4):
        names = self._names(cfg)
        inv = inv_formal if cfg.get("invmode") == "formal" else inv_name
        letters = names + [inv(g) for g in names]
        out = []
        for _ in range(k):
            out.append([rng.choice(letters) for _ in range(rng.randint(3, 10))])
        return out

    def gen_op(self, rng, world):
        cfg = world.cfg
        live = world.live()
        if not live:
            op = self._gen_new(rng, world)
        else:
            w = dict(cfg["weights"])
            if len(live) >= cfg["max_handles"]:
                w["new"] = 0
                w["derive"] = max(1, w["derive"] // 4)
                w["drop"] = 12
            groups = sorted(g for g in w if w[g] > 0)
            op = None
            for _ in range(8):
                g = rng.choices(groups, [w[x] for x in groups])[0]
                op = getattr(self, "_gen_" + g)(rng, world)
                if op is not None:
                    break
            if op is None:
                op = self._gen_new(rng, world)
        op["caller"] = rng.randrange(cfg["callers"])
        op["probe"] = self._probe_words(rng, cfg)
        return op

    def _gen_new(self, rng, world):
        cfg = world.cfg
        return {"op": "new", "new": self._new_id(world), "simple": not cfg["multi"],
                "explicit_flag": rng.random() < 0.5, "invmode": cfg.get("invmode", "default")}

    def _gen_assign(self, rng, world):
        cfg = world.cfg
        h = self._pick(rng, world, lambda x: x.how != "symmetric_square" and (x.n or 0) <= 6)
        if h is None:
            return None
        names = self._names(cfg) if h.how != "subgroup" else SIMPLE[:max(1, len(h.order))]
        if h.gens and not h.simple == (not cfg["multi"]):
            return None
        if cfg["family"] == "sl2z" and not h.gens and rng.random() < 0.7:
            return {"op": "assign_sl2z", "h": h.id}
        g = rng.choice(names)
        if cfg.get("mixed_names") and not cfg["multi"] and h.simple and h.kind == "plain" \
                and h.how in ("new", "copy", "conjugate", "dual", "astype") and h.gens and rng.random() < 0.25:
            g = rng.choice(EXTRA)      # e.g. a generator named "ab" next to "a" and "b"
        n = h.n if h.n is not None else cfg["n"]
        fam = cfg["family"]
        if cfg.get("mixed_dtypes") and rng.random() < 0.5:
            # generators of one representation drawn from different families (an exact integer matrix
            # next to a generic real or complex one) ...
            fam = rng.choice(["unimodular", "unimodular_int", "float", "gaussian"])
        M = gen_matrix(rng, fam, n)
        if g in h.gens and rng.random() < 0.15 and not h.has_complex():
            # re-assign a generator to a matrix *close to* the one it has
            M = h.gens[g] * (1.0 + 8e-6)
            fam = "float"
        dtype = {"unimodular": "float64", "unimodular_int": "int64", "gaussian": "complex128",
                 "float": "float64", "sl2z": "float64"}[fam]
        if cfg.get("mixed_dtypes"):
            # ... and with different dtypes (exact integer / real / complex)
            if fam in ("unimodular", "unimodular_int", "sl2z"):
                dtype = rng.choice(["float64", "int64", "complex128"])
            elif fam == "float":
                dtype = rng.choice(["float64", "complex128"])
        return {"op": "assign", "h": h.id, "g": g, "mat": enc(M), "dtype": dtype,
                "via_inverse": rng.random() < 0.2, "how": rng.choice(["setitem", "setitem", "set_generator"])}

    def _gen_derive(self, rng, world):
        cfg = world.cfg
        h = self._pick(rng, world, lambda x: x.gens and x.how != "symmetric_square" and x.kappa() <= 1e6
                       and x.abs_err <= 1e-5)
        if h is None:
            return None
        if h.kind != "plain":
            kinds = ["copy", "conjugate", "dual", "astype"]
        else:
            kinds = ["copy", "conjugate", "dual", "compose", "subgroup", "astype", "gln_adjoint", "sln_adjoint",
                     "wrap_projective", "wrap_hyperbolic"]
            if h.simple and not h.extra:
                kinds += ["tensor", "symmetric_square", "tensor", "symmetric_square"]
            if h.extra:
                kinds = [x for x in kinds if x not in ("wrap_projective", "wrap_hyperbolic")]
        how = rng.choice(kinds)
        op = {"op": "derive", "new": self._new_id(world), "h": h.id, "how": how}
        n = h.n
        if how == "conjugate":
            op["mat"] = enc(gen_matrix(rng, "float" if cfg["family"] == "float" else "unimodular", n))
            op["give_inverse"] = rng.random() < 0.3
        elif how == "compose":
            op["hom"] = rng.choice(sorted(HOMS))
            op["compute_inverses"] = rng.random() < 0.3
            if op["hom"] == "kron2" and n * n > cfg["maxdim"]:
                return None
        elif how == "tensor":
            mates = [o for o in world.live() if o.simple and set(o.gens) == set(h.gens) and o.kind == "plain"
                     and o.n * n <= cfg["maxdim"] and o.how != "symmetric_square"]
            if not mates or h.kind != "plain":
                return None
            op["other"] = rng.choice(mates).id
        elif how == "symmetric_square":
            if n * (n + 1) // 2 > cfg["maxdim"] or h.kind != "plain":
                return None
        elif how in ("gln_adjoint",):
            if n * n > cfg["maxdim"]:
                return None
        elif how == "sln_adjoint":
            if n < 2 or n * n - 1 > cfg["maxdim"]:
                return None
        elif how == "subgroup":
            letters = sorted(h.gens)
            k = rng.randint(1, 3)
            ws = [[rng.choice(letters) for _ in range(rng.randint(1, 4))] for _ in range(k)]
            op["words"] = ws
            op["compute_inverse"] = (rng.random() < 0.5) or not h.simple
            op["as_dict"] = rng.random() < 0.3
        elif how == "astype":
            if h.dtype == "complex128" or h.has_complex():
                op["dtype"] = "complex128"
            else:
                op["dtype"] = rng.choice(["float64", "complex128"])
        elif how in ("wrap_projective", "wrap_hyperbolic"):
            if h.kind != "plain" or (h.dtype == "complex128" or h.has_complex()) and how == "wrap_hyperbolic":
                return None
        return op

    def _gen_observe(self, rng, world):
        h = self._pick(rng, world, lambda x: x.gens)
        if h is None:
            return None
        which = rng.choice(["getitem", "elements", "fox", "fox", "cocycle", "element_ps", "getitem_list",
                            "getitem_iter"])
        if which in ("fox", "cocycle") and not (h.simple and h.kind == "plain"):
            which = "elements"
        return {"op": "observe", "h": h.id, "which": which}

    def _gen_relations(self, rng, world):
        h = self._pick(rng, world, lambda x: x.simple and x.gens and x.kind == "plain")
        if h is None:
            return None
        letters = sorted(h.gens)
        cands = []
        for g in letters:
            cands.append([g, inv_name(g)])
        if len(letters) >= 4:
            a, b = [x for x in letters if x == x.lower()][:2]
            cands.append([a, b, inv_name(b), inv_name(a)])
        if world.cfg["family"] == "sl2z" and "a" in h.gens and "b" in h.gens:
            cands += [["a"] * 4, ["b"] * 6, ["a", "a", "B", "B", "B"]]
        k = rng.randint(1, min(3, len(cands)))
        return {"op": "relations", "h": h.id, "words": rng.sample(cands, k)}

    def _gen_reject(self, rng, world):
        h = self._pick(rng, world, lambda x: x.kind == "plain")
        if h is None:
            return None
        return {"op": "x_reject", "h": h.id,
                "kind": rng.choice(["mixed_case", "reserved", "non_square", "wrong_size", "no_letter"])}

    def _gen_drop(self, rng, world):
        h = self._pick(rng, world)
        return {"op": "drop", "h": h.id}

    # ------------------------------------------------------------------ interpreter
    def apply(self, world, op):
        world.steps_done += 1
        k = op["op"]
        fn = getattr(self, "_do_" + k, None)
        if fn is None:
            from .core import HarnessError
            raise HarnessError("engine %s has no interpreter for operation %r" % (NAME, k))
        ids = [op[x] for x in ("h", "other") if op.get(x)]
        if any(i not in world.handles for i in ids):
            world.last_relation = "skip"
            return "skipped:no-handle", []
        self._relation(world, op, ids)
        vs = []
        outcome = fn(world, op, vs)
        if outcome.startswith("skipped"):
            return outcome, []
        touched = [x for x in [op.get("new")] + ids if x in world.handles]
        if not vs:
            self._check_all(world, op, touched, vs)
        if touched:
            world.last_touched = touched[0]
        return outcome, vs

    def _relation(self, world, op, ids):
        k = op["op"] + ("." + op["how"] if op["op"] == "derive" else "") + \
            ("." + op["which"] if op["op"] == "observe" else "")
        rel = "new"
        if ids:
            h = world.handles[ids[0]]
            lt = world.last_touched
            if lt not in world.handles:
                rel = "first"
            elif lt == h.id:
                rel = "same"
            elif world.handles[lt].parent == h.id:
                rel = "parent-of-last"
            elif h.parent == lt:
                rel = "child-of-last"
            elif world.handles[lt].family == h.family:
                rel = "family"
            else:
                rel = "unrelated"
            if op["op"] in ("assign", "assign_sl2z"):
                fam = [o for o in world.live() if o.id != h.id and (o.parent == h.id or h.parent == o.id
                                                                    or o.family == h.family)]
                if fam:
                    world.nontrivial = True
                    world.stats["probe.assign_with_related_handle_alive"] += 1
                if op.get("g") in h.gens:
                    world.stats["probe.reassign_existing_generator"] += 1
        world.last_relation = k + ":" + rel

    def _fail(self, vs, inv, detail):
        vs.append(viol("C05", inv, detail))

    def _do_drop(self, world, op, vs):
        world.handles.pop(op["h"], None)
        return "ok"

    def _do_new(self, world, op, vs):
        simple = bool(op["simple"])
        try:
            if op.get("invmode") == "formal" and not simple:
                real = self.representation.Representation(parse_simple=False,
                                                          invert_gen=self.words.formal_inverse)
                world.stats["probe.custom_invert_gen"] += 1
            elif simple and not op.get("explicit_flag"):
                real = self.representation.Representation()
            else:
                real = self.representation.Representation(parse_simple=simple)
        except Exception as e:
            self._fail(vs, "R.new.raised", "Representation() raised %r" % (e,))
            return "raised:" + type(e).__name__
        h = Handle(op["new"], real, simple)
        if op.get("invmode") == "formal" and not simple:
            h.invf = inv_formal
        world.handles[op["new"]] = h
        return "ok"

    def _set(self, h, g, M):
        h.gens[g] = M
        h.gens[h.invf(g)] = np.linalg.inv(M)
        low = g if g == g.lower() else g.lower()
        if low not in h.order:
            h.order.append(low)

    def _do_assign(self, world, op, vs):
        h = world.handles[op["h"]]
        M = dec(op["mat"])
        g = op["g"]
        if h.n is not None and M.shape[0] != h.n:
            return "skipped:dim"
        if h.how == "symmetric_square":
            return "skipped:sym"
        if len(g) > 1 and h.simple and (h.kind != "plain" or not h.gens):
            return "skipped:extra-name"
        name = h.invf(g) if op.get("via_inverse") else g
        arr = self._wrap(h.kind, to_dtype(M, op["dtype"]))
        try:
            if op.get("how") == "set_generator":
                h.real.set_generator(name, arr)
            else:
                h.real[name] = arr
        except Exception as e:
            self._fail(vs, "R.assign.raised", "assigning generator %r (a valid name, %dx%d matrix) raised %r" % (
                name, M.shape[0], M.shape[1], e))
            world.handles.pop(h.id, None)
            return "raised:" + type(e).__name__
        if h.n is None:
            h.n = M.shape[0]
        h.dtype = op["dtype"]
        if len(g) > 1 and h.simple:
            Mm = to_dtype(M, op["dtype"]).astype(np.complex128)
            h.extra[name] = Mm
            h.extra[inv_name(name)] = np.linalg.inv(Mm)
            world.stats["probe.multichar_generator_next_to_single_letters"] += 1
            return "ok"
        self._set(h, name, to_dtype(M, op["dtype"]).astype(np.complex128))
        return "ok"

    def _do_assign_sl2z(self, world, op, vs):
        h = world.handles[op["h"]]
        if h.gens or h.kind != "plain" or not h.simple:
            return "skipped:not-empty"
        S = np.array([[0.0, -1.0], [1.0, 0.0]])
        ST = np.array([[0.0, -1.0], [1.0, 1.0]])
        try:
            h.real["a"] = S.copy()
            h.real["b"] = ST.copy()
        except Exception as e:
            self._fail(vs, "R.assign.raised", "assigning SL2(Z) generators raised %r" % (e,))
            return "raised:" + type(e).__name__
        h.n = 2
        h.dtype = "float64"
        self._set(h, "a", S.astype(np.complex128))
        self._set(h, "b", ST.astype(np.complex128))
        return "ok"

    def _do_relations(self, world, op, vs):
        h = world.handles[op["h"]]
        ws = []
        for w in op["words"]:
            if not all(x in h.gens for x in w) or not w:
                return "skipped:letters"
            M, bound = h.value(w)
            if np.max(np.abs(M - np.eye(h.n))) > 1e-9 * (1 + bound):
                return "skipped:not-a-relation"
            ws.append("".join(w))
        try:
            h.real.relations = list(ws)
        except Exception as e:
            self._fail(vs, "R.relations.raised", repr(e))
            return "raised:" + type(e).__name__
        h.relations = ws
        return "ok"

    def _do_derive(self, world, op, vs):
        h = world.handles[op["h"]]
        how = op["how"]
        if h.how == "symmetric_square":
            return "skipped:sym"
        if not h.gens:
            return "skipped:no-generators"
        if h.kappa() > 1e6 or h.abs_err > 1e-5:
            return "skipped:ill-conditioned"
        a = h.real
        nh = Handle(op["new"], None, h.simple, h.kind, h.id, how, h.family)
        nh.n, nh.dtype = h.n, h.dtype
        nh.invf = h.invf if how != "subgroup" else inv_name
        F = None
        try:
            if how == "copy":
                real = type(a)(a)
                F = lambda M: M
            elif how == "conjugate":
                C = dec(op["mat"])
                if C.shape[0] != h.n:
                    return "skipped:dim"
                Cr = to_dtype(C, "float64")
                Cw = self._wrap(h.kind, Cr)
                if op.get("give_inverse"):
                    real = a.conjugate(Cw, self._wrap(h.kind, np.linalg.inv(Cr)))
                else:
                    real = a.conjugate(Cw)
                Ci = np.linalg.inv(C)
                F = lambda M: Ci @ M @ C
            elif how == "dual":
                real = a.dual()
                F = lambda M: np.linalg.inv(M).T
            elif how == "compose":
                if h.kind != "plain":
                    return "skipped:wrapped"
                f = HOMS[op["hom"]]
                real = a.compose(f, compute_inverses=bool(op.get("compute_inverses")))
                F = f
                nh.n = f(np.eye(h.n)).shape[0]
            elif how == "tensor":
                o = world.handles[op["other"]]
                if not (h.simple and o.simple and set(o.gens) == set(h.gens) and h.kind == o.kind == "plain"
                        and o.how != "symmetric_square") or h.extra or o.extra:
                    return "skipped:mismatch"
                real = a.tensor_product(o.real)
                nh.n = h.n * o.n
                nh.dtype = "complex128" if "complex128" in (h.dtype, o.dtype) else "float64"
                for g in h.gens:
                    nh.gens[g] = np.kron(h.gens[g], o.gens[g])
            elif how == "symmetric_square":
                if not (h.simple and h.kind == "plain") or h.extra:
                    return "skipped:mismatch"
                real = a.symmetric_square()
            elif how == "gln_adjoint":
                if h.kind != "plain":
                    return "skipped:wrapped"
                real = a.gln_adjoint()
                F = lambda M: np.kron(M, np.linalg.inv(M).T)
                nh.n = h.n * h.n
            elif how == "sln_adjoint":
                if h.kind != "plain" or h.n < 2:
                    return "skipped:wrapped"
                real = a.sln_adjoint()
                F = lambda M: _sln_ad(M)
                nh.n = h.n * h.n - 1
            elif how == "subgroup":
                if h.kind != "plain":
                    return "skipped:wrapped"
                ws = op["words"]
                if not all(x in h.gens for w in ws for x in w):
                    return "skipped:letters"
                strs = [("".join(w) if h.simple else "*".join(w)) for w in ws]
                names = SIMPLE[:len(ws)]
                if op.get("as_dict"):
                    real = a.subgroup(dict(zip(names, strs)), compute_inverse=bool(op.get("compute_inverse")))
                else:
                    real = a.subgroup(strs, compute_inverse=bool(op.get("compute_inverse")))
                nh.simple = True
                for nm, w in zip(names, ws):
                    nh.gens[nm] = h.value(w)[0]
                    nh.gens[nm.upper()] = h.value([h.invf(x) for x in reversed(w)])[0]
            elif how == "astype":
                if op["dtype"] != "complex128" and h.has_complex():
                    return "skipped:complex-to-real-cast"      # the caller asked to drop imaginary parts
                real = a.astype(op["dtype"])
                nh.dtype = op["dtype"]
                F = lambda M: M
            elif how in ("wrap_projective", "wrap_hyperbolic"):
                if h.kind != "plain" or h.extra:
                    return "skipped:wrapped"
                cls = (self.projective.ProjectiveRepresentation if how == "wrap_projective"
                       else self.hyperbolic.HyperbolicRepresentation)
                real = cls(a)
                nh.kind = "projective" if how == "wrap_projective" else "hyperbolic"
                F = lambda M: M
            else:
                return "skipped:unknown"
        except Exception as e:
            self._fail(vs, "R.derived.%s.raised" % how, "%s on a valid representation raised %r" % (how, e))
            return "raised:" + type(e).__name__
        if real is None:
            self._fail(vs, "R.derived.%s" % how, "%s returned None" % how)
            return "wrong"
        nh.real = real
        if F is not None:
            for g, M in h.gens.items():
                nh.gens[g] = F(M)
            for g, M in h.extra.items():
                nh.extra[g] = F(M)
        if how == "symmetric_square":
            # checked up to change of basis: the handle keeps its parent's model and is
            # compared by dimension and character
            nh.gens = {g: M.copy() for g, M in h.gens.items()}
        # absolute error the child's generators inherit from how the real code computed them
        mx, kp = h.maxnorm(), h.kappa()
        if how in ("copy", "astype", "wrap_projective", "wrap_hyperbolic"):
            nh.abs_err = h.abs_err
        elif how == "subgroup":
            e = 0.0
            for w in op["words"]:
                for ww in (w, [h.invf(x) for x in reversed(w)]):
                    V, b = h.value(ww)
                    ev = h.tol(ww, b, kp)
                    Vi, bi = h.value([h.invf(x) for x in reversed(ww)])
                    e = max(e, ev * (1 + ninf(Vi) ** 2))
            nh.abs_err = e
        elif how == "tensor":
            o = world.handles[op["other"]]
            nh.abs_err = (h.abs_err + 1e-13 * kp * mx) * o.maxnorm() * 4 + \
                         (o.abs_err + 1e-13 * o.kappa() * o.maxnorm()) * mx * 4
        else:
            c = 1.0
            if how == "conjugate":
                C = dec(op["mat"])
                c = ninf(C) * ninf(np.linalg.inv(C))
            nh.abs_err = (h.abs_err + 1e-13 * kp * mx) * (1 + mx) ** 3 * c
        nh.order = list(h.order) if how != "subgroup" else SIMPLE[:len(op["words"])]
        # homomorphic images of the same group keep the parent's relations (they still hold);
        # tensor product, symmetric square and subgroup start without relations
        nh.relations = list(h.relations) if how in INHERITS_RELATIONS else []
        world.handles[op["new"]] = nh
        world.stats["derive." + how] += 1
        return "ok"

    def _wrap(self, kind, M):
        if kind == "projective":
            return self.projective.Transformation(M, column_vectors=True)
        if kind == "hyperbolic":
            return self.hyperbolic.Isometry(M, column_vectors=True)
        return M

    def _unwrap(self, kind, X):
        if kind in ("projective", "hyperbolic"):
            return np.asarray(X.matrix).swapaxes(-1, -2)
        return np.asarray(X)

    def _do_observe(self, world, op, vs):
        # the observation itself is made by _check_all with the matching accessor
        h = world.handles[op["h"]]
        world.stats["observe." + op["which"]] += 1
        return "ok"

    def _do_x_reject(self, world, op, vs):
        h = world.handles[op["h"]]
        n = h.n or world.cfg["n"]
        kind = op["kind"]
        try:
            if kind == "mixed_case":
                h.real["aB"] = np.eye(n)
            elif kind == "reserved":
                h.real["a*b"] = np.eye(n)
            elif kind == "non_square":
                h.real["a"] = np.ones((n, n + 1))
            elif kind == "wrong_size":
                h.real["a"] = np.eye(n + 1)
            else:
                h.real["12"] = np.eye(n)
            out = "rejected:noraise"
        except Exception as e:
            out = "rejected:" + type(e).__name__
        world.handles.pop(h.id, None)
        world.stats["fault.rejected_op"] += 1
        return out

    # ------------------------------------------------------------------ invariants
    def _eval(self, h, letters, accessor):
        """evaluate a word through the real object"""
        if h.simple:
            w = "".join(letters)
            if accessor == "elements":
                X = h.real.elements([w])
                return self._unwrap(h.kind, X)[0]
            if accessor == "element_ps" and h.kind == "plain":
                return np.asarray(h.real.element(w, parse_simple=True))
            if accessor == "getitem_list":
                return self._unwrap(h.kind, h.real[list(letters)])
            if accessor == "getitem_iter":
                return self._unwrap(h.kind, h.real[iter(list(letters))])
            return self._unwrap(h.kind, h.real[w])
        w = "*".join(letters)
        if accessor == "elements" or not letters:
            if not letters:
                return self._unwrap(h.kind, h.real[""])
            return self._unwrap(h.kind, h.real.elements([w]))[0]
        return self._unwrap(h.kind, h.real.element(w, parse_simple=False))

    def _check_all(self, world, op, touched, vs):
        probe = op.get("probe") or []
        accessor = op.get("which") if op["op"] == "observe" else "getitem"
        for h in world.live():
            if not h.gens:
                continue
            bad = self._check_handle(world, h, probe, accessor if h.id in touched else "getitem")
            if bad:
                inv, detail = bad
                if h.id not in touched:
                    inv = "R.snapshot"
                    detail += " (handle %s was not operated on; step touched %s)" % (h.id, touched)
                vs.append(viol("C05", inv, "handle %s [%s%s, n=%s]: %s" % (
                    h.id, h.how, "" if h.kind == "plain" else "/" + h.kind, h.n, detail)))
                return

    def _words_for(self, h, probe):
        letters = sorted(h.gens)
        ws = [[]]
        ws += [[g] for g in letters]
        if len(letters) <= 8:
            ws += [[g, k] for g in letters for k in letters]
        for w in probe:
            w2 = [x for x in w if x in h.gens]
            if w2:
                ws.append(w2)
        for e in sorted(h.extra):
            if all(ch in h.gens for ch in e):
                ws.append(list(e))          # the *word* a.b, not the generator named "ab"
                ws.append(list(e) + [sorted(h.gens)[0]])
        return ws

    def _check_handle(self, world, h, probe, accessor):
        sym = (h.how == "symmetric_square")
        n = h.n
        try:
            want_dim = n * (n + 1) // 2 if sym else n
            if h.real.dim != want_dim:
                return ("R.dim", "rep.dim = %r, model %r" % (h.real.dim, want_dim))
        except Exception as e:
            return ("R.raised", "reading dim raised %r" % (e,))
        ws = self._words_for(h, probe)
        kappa = h.kappa()
        vals = {}
        for w in ws:
            try:
                raw = self._eval(h, w, accessor)
                got = np.array(raw, dtype=np.complex128)
                if world.cfg.get("scribble") and isinstance(raw, np.ndarray) and raw.flags.writeable \
                        and h.kind == "plain":
                    # the caller overwrites, in place, the array it was handed; later evaluations
                    # must not be affected (a returned array is the caller's)
                    raw[...] = 7
                    world.stats["probe.caller_scribbled_on_result"] += 1
            except Exception as e:
                return ("R.eval.raised", "evaluating word %r raised %r" % ("".join(w) if h.simple else "*".join(w), e))
            if sym:
                vals[tuple(w)] = got
                continue
            want, bound = h.value(w)
            tol = h.tol(w, bound, kappa)
            if got.shape != want.shape:
                return ("R.eval", "image of %r has shape %r, expected %r" % (w, got.shape, want.shape))
            if not np.all(np.abs(got - want) <= tol):
                inv = "R.eval"
                if not w:
                    inv = "R.identity"
                elif len(w) == 1 and w[0] != w[0].lower():
                    inv = "R.inverse"
                elif h.how not in ("new",) and len(w) == 1:
                    inv = "R.derived." + h.how
                return (inv, "image of word %r is %s, the model says %s" % (
                    "".join(w) if h.simple else "*".join(w), np.round(got, 6).tolist(), np.round(want, 6).tolist()))
            vals[tuple(w)] = got
        if sym:
            return self._check_sym(h, ws, vals)
        if h.extra and h.kind == "plain" and h.simple:
            first = sorted(h.gens)[0]
            for e in sorted(h.extra):
                for word, want in ((e, h.extra[e]), (e + "*" + first, h.extra[e] @ h.gens[first])):
                    try:
                        got = np.array(h.real.element(word, parse_simple=False), dtype=np.complex128)
                    except Exception as ex:
                        return ("R.eval.raised", "element(%r, parse_simple=False) raised %r" % (word, ex))
                    b = max(1.0, ninf(h.extra[e])) * max(1.0, ninf(h.gens[first]))
                    if got.shape != want.shape or not np.all(np.abs(got - want) <= h.tol([0, 0], b, kappa)):
                        return ("R.eval", "element(%r, parse_simple=False) is not the image of the generator "
                                "named %r (times %r)" % (word, e, first))
        # homomorphism and free reduction through the real accessor
        for w in probe[:2]:
            w2 = [x for x in w if x in h.gens]
            if len(w2) < 2:
                continue
            cut = len(w2) // 2
            try:
                u = np.asarray(self._eval(h, w2[:cut], accessor), dtype=np.complex128)
                v = np.asarray(self._eval(h, w2[cut:], accessor), dtype=np.complex128)
                red = _reduce(w2, h.invf)
                if h.simple:
                    # the library's own free reduction
                    lib = self.words.simplify_word("".join(w2))
                    if not isinstance(lib, str) or any(ch not in h.gens for ch in lib):
                        return ("R.reduce", "simplify_word(%r) = %r is not a word in the generators" % ("".join(w2), lib))
                    red = list(lib)
                r = np.asarray(self._eval(h, red, accessor), dtype=np.complex128)
            except Exception as e:
                return ("R.eval.raised", "evaluating a subword of %r raised %r" % (w2, e))
            _, bound = h.value(w2)
            tol = h.tol(w2, bound, kappa) * 10
            if not np.all(np.abs(u @ v - vals[tuple(w2)]) <= tol):
                return ("R.concat", "rep[uv] != rep[u] rep[v] for u=%r v=%r" % (w2[:cut], w2[cut:]))
            if not np.all(np.abs(r - vals[tuple(w2)]) <= tol):
                return ("R.reduce", "rep[w] != rep[reduced w] for w=%r reduced=%r" % (w2, red))
        if accessor in ("fox", "cocycle") and h.simple and h.kind == "plain":
            return self._check_fox(world, h, probe, accessor, kappa)
        return None

    def _check_sym(self, h, ws, vals):
        n = h.n
        d = n * (n + 1) // 2
        for w in ws:
            got = vals[tuple(w)]
            if got.shape != (d, d):
                return ("R.derived.symmetric_square", "image of %r has shape %r, expected (%d, %d)" % (w, got.shape, d, d))
            M, bound = h.value(w)
            want = sym2_char(np.trace(M), np.trace(M @ M))
            tol = (1e-8 * (1 + h.kappa()) + 10 * h.abs_err) * (1 + bound * bound) * d * (2 + len(w))
            if abs(np.trace(got) - want) > tol:
                return ("R.derived.symmetric_square", "trace of the image of %r is %r, but (tr(g)^2 + tr(g^2))/2 = %r" % (
                    "".join(w), complex(np.round(np.trace(got), 6)), complex(np.round(want, 6))))
        return None

    def _check_fox(self, world, h, probe, accessor, kappa):
        n = h.n
        words = [[x for x in w if x in h.gens] for w in probe]
        words = [w for w in words if w][:3]
        try:
            cob = np.asarray(h.real.coboundary_matrix(), dtype=np.complex128)
        except Exception as e:
            return ("R.fox.raised", "coboundary_matrix() raised %r" % (e,))
        k = len([g for g in h.gens if g == g.lower()]) + len([g for g in h.extra if g == g.lower()])
        if cob.shape != (n * k, n):
            return ("R.fox", "coboundary_matrix has shape %r, expected %r" % (cob.shape, (n * k, n)))
        for w in words:
            try:
                D = np.asarray(h.real.differential("".join(w)), dtype=np.complex128)
            except Exception as e:
                return ("R.fox.raised", "differential(%r) raised %r" % ("".join(w), e))
            M, bound = h.value(w)
            want = np.eye(n) - M
            tol = h.tol(w, bound, kappa) * 4 * max(1.0, bound)
            if D.shape != (n, n * k) or not np.all(np.abs(D @ cob - want) <= tol):
                return ("R.fox", "fundamental formula fails for w=%r: sum_g D_g(w)(rho(g)-I) != rho(w)-I "
                        "(max deviation %.3g)" % ("".join(w), float(np.max(np.abs(D @ cob - want))) if D.shape == (n, n * k) else -1))
            world.stats["probe.fox_formula_checked"] += 1
        stale = False
        for r in h.relations:
            M, bound = h.value(list(r))
            if np.max(np.abs(M - np.eye(n))) > 1e-9 * (1 + bound):
                stale = True        # a generator was re-assigned since: no longer a relation
        if stale:
            world.stats["probe.relations_stale_after_reassign"] += 1
        if accessor == "cocycle" and not stale:
            # every relation the simulator ever gave this handle (or its homomorphic ancestors) holds
            # in the model, so whatever relations the object carries, its cocycle matrix must
            # annihilate the coboundary matrix.  Without relations cocycle_matrix() has nothing to
            # concatenate and may raise; that is not asserted.
            try:
                C = np.asarray(h.real.cocycle_matrix(), dtype=np.complex128)
            except Exception as e:
                if h.relations:
                    return ("R.cocycle.raised", "cocycle_matrix() raised %r" % (e,))
                return None
            bound = max([1.0] + [h.value(list(r))[1] for r in h.relations])
            if h.relations and C.shape != (n * len(h.relations), n * k):
                return ("R.cocycle", "cocycle matrix has shape %r for relations %r" % (C.shape, h.relations))
            if C.ndim == 2 and C.shape[0] > 0 and C.shape[1] == n * k and \
                    not np.all(np.abs(C @ cob) <= h.tol([0] * 10, bound, kappa) * 4 * max(1.0, bound) + 1e-9):
                return ("R.cocycle", "the cocycle matrix (relations given: %r; relations the object carries: %r) "
                        "does not annihilate the coboundary matrix" % (h.relations, _safe_rel(h.real)))
            world.stats["probe.cocycle_checked"] += 1
        return None

    def simplify_op(self, op):
        out = []
        if op.get("probe"):
            for i in range(len(op["probe"])):
                o = dict(op)
                o["probe"] = op["probe"][:i] + op["probe"][i + 1:]
                out.append(o)
            for i, w in enumerate(op["probe"]):
                if len(w) > 1:
                    o = dict(op)
                    o["probe"] = op["probe"][:i] + [w[:-1]] + op["probe"][i + 1:]
                    out.append(o)
        return out


def _safe_rel(rep):
    try:
        return list(rep.relations)
    except Exception:
        return "?"


def _reduce(w, inv=inv_name):
    out = []
    for x in w:
        if out and out[-1] == inv(x):
            out.pop()
        else:
            out.append(x)
    return out


def _sln_ad(M):
    """adjoint action on traceless matrices in the basis E_ij (i,j) != (n-1,n-1),
    diagonal elements E_ii - E_nn, coordinates = first n^2-1 row-major entries"""
    n = M.shape[0]
    Mi = np.linalg.inv(M)
    d = n * n - 1
    out = np.zeros((d, d), dtype=np.complex128)
    for i in range(n):
        for j in range(n):
            if i == n - 1 and j == n - 1:
                break
            B = np.zeros((n, n), dtype=np.complex128)
            B[i, j] = 1
            if i == j:
                B[n - 1, n - 1] = -1
            img = M @ B @ Mi
            out[:, i * n + j] = img.reshape(-1)[:-1]
    return out


def factory():
    return Engine()
