"""Self-tests of the simulator: determinism, sensitivity (mutants), evidence validity.

  ./check selftest determinism [--props C09,C10] [--n 200]
  ./check selftest sensitivity [--only name-substring] [--runs N] [--dir DIR]
  ./check selftest evidence
  ./check selftest model            # the simulator's own trusted base, checked against brute force
"""
import argparse
import glob
import json
import os
import re
import shutil
import subprocess
import sys
import tempfile
import time

from . import core

VERIF = core.VERIF_DIR
CHECK = os.path.join(VERIF, "check")
PROPS = ["C05", "C06", "C09", "C10", "C11"]
BASELINE = "/root/.vp/BASELINE.json"


def main(argv):
    if not argv:
        print(__doc__)
        return 2
    kind = argv[0]
    if kind == "determinism":
        return determinism(argv[1:])
    if kind == "sensitivity":
        return sensitivity(argv[1:])
    if kind == "evidence":
        return evidence(argv[1:])
    if kind == "model":
        return model(argv[1:])
    print(__doc__)
    return 2


# --------------------------------------------------------------------------- determinism

def _digest(prop, n, workers, hashseed, tier="quick", seed=0):
    env = dict(os.environ)
    if hashseed is None:
        env.pop("PYTHONHASHSEED", None)
        env["PYTHONHASHSEED"] = "random"
    else:
        env["PYTHONHASHSEED"] = str(hashseed)
    env["VERIF_SEED"] = str(seed)
    out = subprocess.run([CHECK, prop, tier, "--runs", str(n), "--workers", str(workers),
                          "--print-digest", "--no-evidence"], capture_output=True, text=True,
                         env=env, timeout=3600)
    m = re.search(r"digest=([0-9a-f]+)", out.stdout)
    s = re.search(r"steps=(\d+)", out.stdout)
    if not m:
        raise core.HarnessError("no digest from %s: %s %s" % (prop, out.stdout[-500:], out.stderr[-500:]))
    return m.group(1), int(s.group(1)), out.returncode


def determinism(argv):
    ap = argparse.ArgumentParser()
    ap.add_argument("--props", default=",".join(PROPS))
    ap.add_argument("--n", type=int, default=200)
    ap.add_argument("--seeds", default="0,7")
    args = ap.parse_args(argv)
    ok = True
    core.bootstrap_repo(os.environ.get("VERIF_REPO", "/repo"))
    core.install_alarm()
    from . import cli
    for prop in args.props.split(","):
        factory, mod = cli.load_engine_factory(prop)
        engine = factory()
        # same process, twice each
        diffs = 0
        for r in range(args.n):
            a = core.run_one(engine, prop, 0, r, "quick")
            b = core.run_one(engine, prop, 0, r, "quick")
            if a.digest != b.digest or a.ops != b.ops:
                diffs += 1
                print("  NONDETERMINISTIC in-process: %s run %d" % (prop, r))
        variants = {}
        for seed in [int(x) for x in args.seeds.split(",")]:
            for (w, hs) in [(1, 0), (1, 1), (1, None), (4, 0), (16, 1), (16, None)]:
                variants[(seed, w, hs)] = _digest(prop, args.n, w, hs, seed=seed)
        by_seed = {}
        for (seed, w, hs), v in variants.items():
            by_seed.setdefault(seed, set()).add(v[:2])
        good = diffs == 0 and all(len(s) == 1 for s in by_seed.values())
        ok = ok and good
        print("%s determinism %s: %d runs x {twice in-process; fresh interpreters with PYTHONHASHSEED 0/1/random; "
              "workers 1/4/16} x seeds %s -> digests %s" % (
                  prop, "OK" if good else "FAILED", args.n, args.seeds,
                  {s: sorted(v) for s, v in by_seed.items()}))
    return 0 if ok else 1


# --------------------------------------------------------------------------- sensitivity

def _baseline_ok(repo):
    """the pinned baseline (79 stable tests) must still pass in the scratch copy"""
    with open(BASELINE) as f:
        base = json.load(f)
    norm = lambda t: t[len("testing."):] if t.startswith("testing.") else t
    want = set(norm(t) for t in base["stable_pass"])
    junit = os.path.join(repo, ".verif-junit.xml")
    subprocess.run(["/venv/bin/python", "-m", "pytest", "-q", "-p", "no:cacheprovider",
                    "--continue-on-collection-errors", "--junitxml=" + junit, "testing"],
                   cwd=repo, capture_output=True, text=True, timeout=1800,
                   env={k: v for k, v in os.environ.items() if k != "PYTHONPATH"})
    import xml.etree.ElementTree as ET
    passed = set()
    try:
        for tc in ET.parse(junit).getroot().iter("testcase"):
            if not any(ch.tag in ("failure", "error", "skipped") for ch in tc):
                passed.add(norm("%s::%s" % (tc.get("classname"), tc.get("name"))))
    finally:
        if os.path.exists(junit):
            os.unlink(junit)
    missing = sorted(want - passed)
    return not missing, missing


def _scratch_copy(repo="/repo"):
    d = tempfile.mkdtemp(prefix="gtverif-mutant-")
    dst = os.path.join(d, "repo")
    subprocess.run(["git", "-C", repo, "worktree", "add", "--detach", "-f", dst, "HEAD"],
                   capture_output=True, text=True, check=True)
    return d, dst


def _remove_scratch(d, dst, repo="/repo"):
    subprocess.run(["git", "-C", repo, "worktree", "remove", "--force", dst], capture_output=True)
    shutil.rmtree(d, ignore_errors=True)
    subprocess.run(["git", "-C", repo, "worktree", "prune"], capture_output=True)


def _mutant_meta(path):
    meta = {"property": None, "also": []}
    with open(path) as f:
        for line in f:
            m = re.match(r"#\s*(\w+):\s*(.*)", line)
            if not m:
                if not line.startswith("#"):
                    break
                continue
            k, v = m.group(1), m.group(2).strip()
            if k == "property":
                meta["property"] = v
            elif k == "also":
                meta["also"] = [x.strip() for x in v.split(",") if x.strip()]
            else:
                meta[k] = v
    return meta


def sensitivity(argv):
    ap = argparse.ArgumentParser()
    ap.add_argument("--only", default="")
    ap.add_argument("--runs", type=int, default=0)
    ap.add_argument("--dir", default=os.path.join(VERIF, "sim", "mutants"))
    ap.add_argument("--tier", default="quick")
    ap.add_argument("--skip-baseline", action="store_true")
    ap.add_argument("--json", default="")
    args = ap.parse_args(argv)
    args.dir = os.path.abspath(args.dir)
    patches = sorted(glob.glob(os.path.join(args.dir, "*.patch")) +
                     glob.glob(os.path.join(args.dir, "*", "patch.diff")))
    patches = [p for p in patches if args.only in p]
    results = []
    for p in patches:
        name = os.path.basename(p)[:-6] if p.endswith(".patch") else os.path.basename(os.path.dirname(p))
        if p.endswith("patch.diff"):
            mp = os.path.join(os.path.dirname(p), "meta.json")
            with open(mp) as f:
                mj = json.load(f)
            meta = {"property": mj["property"], "also": mj.get("also", [])}
        else:
            meta = _mutant_meta(p)
        props = [meta["property"]] + meta["also"]
        d, dst = _scratch_copy()
        rec = {"mutant": name, "property": meta["property"], "caught_by": [], "missed_by": []}
        try:
            ap_ = subprocess.run(["git", "-C", dst, "apply", "--whitespace=nowarn", p],
                                 capture_output=True, text=True)
            if ap_.returncode != 0:
                rec["error"] = "patch does not apply: " + ap_.stderr[-300:]
                results.append(rec)
                print("%-44s PATCH-FAILED %s" % (name, ap_.stderr.strip()[-200:]))
                continue
            if not args.skip_baseline:
                ok, missing = _baseline_ok(dst)
                rec["baseline_passes"] = ok
                if not ok:
                    rec["baseline_missing"] = missing[:5]
            demo = os.path.join(os.path.dirname(p), "demo.py")
            if p.endswith("patch.diff") and os.path.exists(demo):
                env = {k: v for k, v in os.environ.items() if k != "PYTHONPATH"}
                c = subprocess.run(["/venv/bin/python", demo, "/repo"], cwd="/tmp", capture_output=True,
                                   text=True, timeout=600, env=env)
                m_ = subprocess.run(["/venv/bin/python", demo, dst], cwd="/tmp", capture_output=True,
                                    text=True, timeout=600, env=env)
                rec["demo_passes_on_unchanged_tree"] = (c.returncode == 0)
                rec["demo_fails_on_mutant"] = (m_.returncode != 0)
            for prop in props:
                t0 = time.time()
                cmd = [CHECK, prop, args.tier, "--repo", dst, "--no-evidence"]
                if args.runs:
                    cmd += ["--runs", str(args.runs)]
                out = subprocess.run(cmd, capture_output=True, text=True, timeout=7200)
                viols = re.findall(r"VIOLATION property=(\S+) replay=(\S+)", out.stdout)
                entry = {"property": prop, "exit": out.returncode, "wall_s": round(time.time() - t0, 1),
                         "violations": len(viols)}
                if out.returncode == 1 and viols:
                    # the replay must reproduce on the mutant and not on the unchanged tree
                    rp = viols[0][1]
                    r1 = subprocess.run([CHECK, prop, "--replay", rp, "--repo", dst],
                                        capture_output=True, text=True, timeout=600)
                    r2 = subprocess.run([CHECK, prop, "--replay", rp], capture_output=True, text=True,
                                        timeout=600)
                    entry["replay_reproduces_on_mutant"] = (r1.returncode == 1)
                    entry["replay_clean_on_unchanged_tree"] = (r2.returncode == 0)
                    m = re.search(r"^\s+(\S+) at step", out.stdout, re.M)
                    entry["first_class"] = m.group(1) if m else None
                    with open(rp) as f:
                        entry["minimised_ops"] = len(json.load(f)["ops"])
                    rec["caught_by"].append(entry)
                else:
                    if out.returncode not in (0, 1):
                        entry["harness"] = out.stdout[-300:]
                    rec["missed_by"].append(entry)
        finally:
            _remove_scratch(d, dst)
        results.append(rec)
        print("%-44s %-4s baseline=%s demo(clean-pass,mutant-fail)=%s caught_by=%s missed_by=%s" % (
            name, meta["property"], rec.get("baseline_passes", "n/a"),
            (rec.get("demo_passes_on_unchanged_tree"), rec.get("demo_fails_on_mutant")),
            [(e["property"], e.get("first_class"), e.get("minimised_ops"),
              e.get("replay_reproduces_on_mutant"), e.get("replay_clean_on_unchanged_tree"))
             for e in rec["caught_by"]],
            [(e["property"], e["exit"]) for e in rec["missed_by"]]))
        sys.stdout.flush()
    if args.json:
        with open(args.json, "w") as f:
            json.dump(results, f, indent=1)
    primary_missed = [r["mutant"] for r in results
                      if not any(e["property"] == r["property"] for e in r["caught_by"])]
    print("mutants: %d, caught by the check of their own property: %d, missed: %s" % (
        len(results), len(results) - len(primary_missed), primary_missed))
    return 0 if not primary_missed else 1


# --------------------------------------------------------------------------- evidence

def evidence(argv):
    code = ("import json,sys,glob,jsonschema\n"
            "s=json.load(open('/root/.vp/EVIDENCE.schema.json'))\n"
            "bad=0\n"
            "for p in sorted(glob.glob('%s/evidence/*.json')):\n"
            "    try:\n"
            "        jsonschema.validate(json.load(open(p)), s); print('valid', p)\n"
            "    except Exception as e:\n"
            "        bad+=1; print('INVALID', p, str(e)[:300])\n"
            "m=json.load(open('%s/MANIFEST.json'))\n"
            "jsonschema.validate(m, json.load(open('/root/.vp/MANIFEST.schema.json'))); print('valid MANIFEST.json')\n"
            "sys.exit(1 if bad else 0)\n" % (VERIF, VERIF))
    return subprocess.run(["python3-vt", "-c", code]).returncode


# --------------------------------------------------------------------------- trusted base

def model(argv):
    """Checks of the pieces the oracles trust, each against an independent brute-force computation:
    the kbmag writer against the independent reader, the simulated disk's byte delivery under short
    reads, the path enumerator / pruning / BFS of the automaton model, the projective row comparison,
    and the exact matrix products of W-ENUM."""
    import io
    import itertools
    import random
    import numpy as np
    core.bootstrap_repo(os.environ.get("VERIF_REPO", "/repo"))
    from . import simfs, w_fsa, w_enum, w_obj
    rng = random.Random(12345)
    eng = w_fsa.Engine()
    fails = []

    # 1. writer -> independent reader round trip over random tables and layouts
    n_rt = 0
    for _ in range(3000):
        cfg = {"nverts": 5, "vkind": "int", "alpha": "single", "nlabels": 3}
        t = eng._gen_table(rng, cfg)
        lay = eng._gen_layout(rng)
        txt = simfs.kbmag_text(t, lay)
        back = simfs.read_table(txt.replace("\r\n", "\n"))
        n_rt += 1
        if back != {"names": [str(x) for x in t["names"]], "n": t["n"],
                    "transitions": t["transitions"], "initial": t["initial"]}:
            fails.append("kbmag writer/reader round trip: %r %r" % (t, lay))
            break

    # 2. simulated disk delivers exactly the file's bytes under any short-read plan
    n_disk = 0
    for _ in range(2000):
        data = bytes(rng.randrange(32, 127) for _ in range(rng.randrange(0, 700)))
        plan = simfs.FaultPlan(None, [rng.choice([1, 2, 3, 7, 64, 5000]) for _ in range(rng.randint(1, 4))],
                               rng.choice([1, 2, 5, 16, 128, 8192]))
        f = io.TextIOWrapper(io.BufferedReader(simfs.SimRaw(data, plan, "t"), buffer_size=plan.bufsize),
                             encoding="utf-8", newline=None)
        mode = rng.choice(["read", "lines", "chunks"])
        if mode == "read":
            got = f.read()
        elif mode == "lines":
            got = "".join(f)
        else:
            got = ""
            while True:
                c = f.read(rng.choice([1, 10, 100]))
                if not c:
                    break
                got += c
        f.close()
        n_disk += 1
        if got != data.decode("utf-8") or plan.opened != plan.closed:
            fails.append("simulated disk delivered different bytes (%s)" % mode)
            break

    # 3. automaton model: path enumeration, pruning, BFS against brute force
    n_aut = 0
    for _ in range(1500):
        V = list(range(rng.randint(1, 5)))
        A = ["a", "b", "c"][:rng.randint(1, 3)]
        E = set()
        for t_ in V:
            for l in A:
                if rng.random() < 0.5:
                    E.add((t_, rng.choice(V), l))
        h = w_fsa.Handle("x", None, V, E, [V[0]], "test")
        adj = h.adj()
        for s0 in V:
            lv = eng._lang(adj, s0, 3)
            got = sorted(("".join(p), v) for l in lv for p, v in l)
            want = []
            for n in range(4):
                for w in itertools.product(A, repeat=n):
                    v = s0
                    ok = True
                    for l in w:
                        nxt = [hd for (t_, hd, l2) in E if t_ == v and l2 == l]
                        if not nxt:
                            ok = False
                            break
                        v = nxt[0]
                    if ok:
                        want.append(("".join(w), v))
            if got != sorted(want):
                fails.append("path enumerator differs from brute force")
        # pruning = greatest fixed point: brute force over all subsets
        V2, E2 = eng._prune(set(V), set(E))
        best = set()
        for k in range(len(V), -1, -1):
            found = False
            for sub in itertools.combinations(V, k):
                sub = set(sub)
                Es = {e for e in E if e[0] in sub and e[1] in sub}
                if all(any(e[0] == v for e in Es) and any(e[1] == v for e in Es) for v in sub):
                    best = sub
                    found = True
                    break
            if found:
                break
        if V2 != best:
            fails.append("pruning is not the largest sub-automaton without dead ends: %r vs %r" % (V2, best))
        dist = eng._bfs(h, V[0])
        # Bellman-Ford style check
        for (t_, hd, l) in E:
            if t_ in dist and (hd not in dist or dist[hd] > dist[t_] + 1):
                fails.append("BFS distances violate the triangle inequality")
        n_aut += 1
        if fails:
            break

    # 4. projective comparison
    n_proj = 0
    for _ in range(3000):
        d = rng.randint(2, 4)
        u = np.array([rng.uniform(-1, 1) for _ in range(d)])
        c = rng.choice([-3.0, 1e-6, 1e6, 0.5])
        same = w_obj.rows_proj_equal(u[None], (c * u)[None]) < 0
        pos = w_obj.rows_proj_equal(u[None], (c * u)[None], positive=True) < 0
        v = u + np.array([rng.uniform(-1, 1) for _ in range(d)]) * 1e-3
        cross = np.linalg.norm(u) ** 2 * np.linalg.norm(v) ** 2 - np.dot(u, v) ** 2
        diff = w_obj.rows_proj_equal(u[None], v[None]) >= 0
        n_proj += 1
        if not same or pos != (c > 0) or diff != (cross > 1e-12 * np.linalg.norm(u) ** 2 * np.linalg.norm(v) ** 2):
            fails.append("projective row comparison wrong for %r %r" % (u, c))
            break

    # 5. exact unimodular matrices: M @ Mi == I in exact arithmetic
    n_uni = 0
    for _ in range(2000):
        n = rng.randint(1, 4)
        M, Mi = w_enum.unimodular(rng, n, rng.random() < 0.3)
        P = w_enum.dec(w_enum.enc(M)).dot(w_enum.dec(w_enum.enc(Mi)))
        n_uni += 1
        if not all(P[i, j] == (1 if i == j else 0) for i in range(n) for j in range(n)):
            fails.append("unimodular generator and its recorded inverse do not multiply to I")
            break

    print("model self-test: %d record round trips, %d simulated reads, %d automaton models, %d projective "
          "comparisons, %d unimodular pairs -> %s" % (n_rt, n_disk, n_aut, n_proj, n_uni,
                                                       "OK" if not fails else "FAILED"))
    for f in fails[:5]:
        print("  " + f)
    return 0 if not fails else 1
