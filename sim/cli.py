"""Command-line driver: tiers, violation reporting, known findings, evidence."""
import argparse
import json
import os
import sys
import time
import traceback

from . import core

VERIF = core.VERIF_DIR
DEFAULT_REPO = "/repo"

# property -> (engine module, factory attr)
ENGINES = {
    "C09": "w_fsa", "C10": "w_fsa", "C06": "w_enum", "C11": "w_obj", "C05": "w_rep",
}

# run counts per tier: constants fixed at calibration (not a wall-clock budget), so that
# evidence is reproducible.  See DESIGN.md "Calibration".
RUNS = {
    "C09": {"quick": 50000, "thorough": 1000000},
    "C10": {"quick": 25000, "thorough": 500000},
    "C06": {"quick": 30000, "thorough": 900000},
    "C11": {"quick": 16000, "thorough": 300000},
    "C05": {"quick": 8000, "thorough": 160000},
}

RULES = {}


def load_engine_factory(prop):
    import importlib
    mod = importlib.import_module("sim." + ENGINES[prop])
    return mod.factory, mod


def all_engines():
    import importlib
    out = {}
    for m in sorted(set(ENGINES.values())):
        try:
            mod = importlib.import_module("sim." + m)
        except ImportError:
            continue
        out[mod.NAME] = mod.factory()
    return out


def main(argv):
    if argv and argv[0] == "selftest":
        from . import selftest
        return selftest.main(argv[1:])
    ap = argparse.ArgumentParser(prog="check")
    ap.add_argument("prop")
    ap.add_argument("tier", nargs="?", default=None)
    ap.add_argument("--replay")
    ap.add_argument("--repo", default=os.environ.get("VERIF_REPO", DEFAULT_REPO))
    ap.add_argument("--runs", type=int)
    ap.add_argument("--workers", type=int)
    ap.add_argument("--first-run", type=int, default=0)
    ap.add_argument("--seed", type=int)
    ap.add_argument("--no-evidence", action="store_true")
    ap.add_argument("--print-digest", action="store_true")
    args = ap.parse_args(argv)
    prop = args.prop
    if prop not in ENGINES:
        print("HARNESS-ERROR unknown property %s (claimed: %s)" % (prop, sorted(ENGINES)))
        return 2
    try:
        repo = core.bootstrap_repo(args.repo)
        if args.replay:
            return do_replay(prop, args.replay, repo)
        tier = args.tier or os.environ.get("VERIF_TIER") or "quick"
        if tier not in ("quick", "thorough"):
            print("HARNESS-ERROR unknown tier %r" % tier)
            return 2
        seed = args.seed if args.seed is not None else int(os.environ.get("VERIF_SEED", "0") or 0)
        return do_check(prop, tier, seed, repo, args)
    except core.HarnessError as e:
        print("HARNESS-ERROR property=%s %s" % (prop, e))
        return 2
    except Exception:
        print("HARNESS-ERROR property=%s unexpected exception in the simulator:\n%s" % (
            prop, traceback.format_exc()))
        return 2


def do_replay(prop, path, repo):
    core.install_alarm()
    engines = all_engines()
    ok, res, doc = core.replay_file(engines, path)
    print("replay %s: property=%s engine=%s ops=%d (recorded on repo %s)" % (
        path, doc["property"], doc["engine"], len(doc["ops"]), doc.get("repo_rev")))
    for op, outcome in zip(res.ops, res.outcomes):
        print("  %-18s %s  -> %s" % (op["op"], json.dumps({k: v for k, v in op.items() if k != "op"},
                                                         default=core._json_default)[:200], outcome))
    if ok:
        for v in res.violations:
            print("  violated: property=%s invariant=%s at step %d (%s): %s" % (
                v["prop"], v["inv"], v["step"], v["op"], v["detail"]))
        print("VIOLATION property=%s replay=%s" % (doc["property"], path))
        return 1
    print("replay did not reproduce violation class %s/%s on this tree%s" % (
        doc["violation"]["prop"], doc["violation"]["inv"],
        "" if not res.violations else " (other violations: %s)" % [(v["prop"], v["inv"]) for v in res.violations]))
    return 0


def do_check(prop, tier, seed, repo, args):
    t0 = time.time()
    factory, mod = load_engine_factory(prop)
    nruns = args.runs or RUNS[prop][tier]
    print("check property=%s tier=%s VERIF_SEED=%d runs=%d engine=%s repo=%s (%s)" % (
        prop, tier, seed, nruns, mod.NAME, repo, core.repo_rev(repo)))
    sys.stdout.flush()
    merged = core.drive(factory, prop, seed, tier, nruns, repo, workers=args.workers,
                        first_run=args.first_run)
    wall_run = time.time() - t0
    if args.print_digest:
        print("digest=%s" % merged["digest"])
    # ---- violations
    mine, foreign = {}, {}
    for rec in merged["violations"]:
        for v in rec["violations"]:
            bucket = mine if v["prop"] == prop else foreign
            bucket.setdefault((v["prop"], v["inv"]), []).append(rec)
    known = core.load_known()
    engine = factory()
    core.install_alarm()
    exit_code = 0
    reported = []
    known_hits = []
    for cls in sorted(mine)[:4]:
        rec = mine[cls][0]
        ops, calls = core.minimise(engine, prop, rec["config"], rec["ops"], cls)
        res = core.execute(engine, prop, rec["config"], ops=ops)
        v = next((x for x in res.violations if (x["prop"], x["inv"]) == cls), None)
        if v is None:   # minimisation lost it (should not happen): fall back to the full history
            ops = rec["ops"]
            res = core.execute(engine, prop, rec["config"], ops=ops)
            v = next((x for x in res.violations if (x["prop"], x["inv"]) == cls), None)
            if v is None:
                raise core.HarnessError("violation %s of run %d does not reproduce in the parent "
                                        "process: the run is not deterministic" % (cls, rec["run"]))
        sig = core.signature(v, ops)
        path = os.path.join(VERIF, "replays", "%s-s%d-r%d-%s.json" % (
            prop, seed, rec["run"], cls[1].replace("/", "_")))
        core.write_replay(path, prop, engine, seed, rec["run"], tier, rec["config"], ops, v, repo,
                          extra={"signature": sig, "minimiser_executions": calls,
                                 "original_length": len(rec["ops"]),
                                 "runs_with_this_class": len(mine[cls])})
        k = core.match_known(known, prop, sig)
        if k is not None:
            print("KNOWN-FINDING: property=%s %s [%s; replay=%s]" % (prop, k["what"], cls[1], path))
            known_hits.append({"class": list(cls), "what": k["what"], "replay": path})
        else:
            print("  %s at step %d (%s): %s" % (cls[1], v["step"], v["op"], v["detail"]))
            print("VIOLATION property=%s replay=%s" % (prop, path))
            reported.append({"class": list(cls), "replay": path, "runs": len(mine[cls]),
                             "detail": v["detail"], "ops": [o["op"] for o in ops]})
            exit_code = 1
    wall = time.time() - t0
    # ---- evidence
    if not args.no_evidence:
        ev = build_evidence(prop, tier, seed, mod, merged, nruns, wall, wall_run,
                            mine, foreign, reported, known_hits)
        os.makedirs(os.path.join(VERIF, "evidence"), exist_ok=True)
        with open(os.path.join(VERIF, "evidence", prop + ".json"), "w") as f:
            json.dump(ev, f, indent=1, sort_keys=True, default=core._json_default)
    st = merged["stats"]
    print("runs=%d steps=%d distinct_nontrivial=%d distinct_final_states=%d wall=%.1fs (%.0f runs/h) "
          "violations(this property)=%d classes, other-property observations=%d classes" % (
              merged["runs"], merged["steps"], merged["distinct_nontrivial"],
              merged["distinct_final_states"], wall, merged["runs"] / max(wall_run, 1e-9) * 3600,
              len(mine), len(foreign)))
    if foreign:
        print("observations attributed to other properties (no alarm from this check): %s" % (
            {"%s/%s" % c: len(r) for c, r in sorted(foreign.items())},))
    faults = {k: n for k, n in sorted(st.items()) if k.startswith("fault.")}
    if faults:
        print("faults fired: %s" % faults)
    if exit_code == 0:
        print("OK property=%s held on everything explored" % prop)
    return exit_code


def build_evidence(prop, tier, seed, mod, merged, nruns, wall, wall_run, mine, foreign,
                   reported, known_hits):
    st = merged["stats"]
    grp = lambda pre: {k[len(pre):]: n for k, n in sorted(st.items()) if k.startswith(pre)}
    samples = []
    for s in merged["samples"][:3]:
        samples.append({"run": s["run"],
                        "history": [{"op": o, "outcome": out} for o, out in zip(s["ops"], s["outcomes"])]})
    if not samples:
        samples = [{"note": "no non-trivial run among the first chunk"}]
    cov = {
        "evaluations": merged["runs"],
        "distinct_nontrivial": merged["distinct_nontrivial"],
        "rule": getattr(mod, "RULE", RULES.get(mod.NAME, "")),
        "samples": samples,
        "exhaustive": False,
        "steps_total": merged["steps"],
        "simulated_time": "%d logical steps (the library has no clock; time = operations)" % merged["steps"],
        "runs_per_hour": int(merged["runs"] / max(wall_run, 1e-9) * 3600),
        "steps_per_hour": int(merged["steps"] / max(wall_run, 1e-9) * 3600),
        "distinct_history_shapes": merged["distinct_shapes"],
        "distinct_final_model_states": merged["distinct_final_states"],
        "ops": grp("op."),
        "outcomes": grp("outcome."),
        "faults_fired": grp("fault."),
        "relation_bigrams": grp("rel."),
        "probes": grp("probe."),
        "other_counters": {k: n for k, n in sorted(st.items())
                           if not k.startswith(("op.", "outcome.", "fault.", "rel.", "probe."))},
        "components": getattr(mod, "COMPONENTS", {}),
        "event_log_digest": merged["digest"],
        "violation_classes_this_property": [list(c) for c in sorted(mine)],
        "observations_other_properties": {"%s/%s" % c: len(r) for c, r in sorted(foreign.items())},
        "reported": reported,
        "known_findings_hit": known_hits,
    }
    return {
        "property_id": prop,
        "tier": tier,
        "seed": seed,
        "level": "exploration",
        "coverage": cov,
        "assumptions": getattr(mod, "ASSUMPTIONS", []),
        "wall_s": round(wall, 2),
        "violations": len(reported),
    }
